//! C16 — allocated process identifiers and references are unique under any
//! interleaving. The real `PidAllocator::allocate` and `Node::make_reference`
//! run on shuttle threads (their std::sync imports are switched to shuttle's
//! under --cfg edp_verif_shuttle): DFS for small configurations, seeded random
//! and PCT schedules beyond; one single-thread multi-wrap history.

use edp_client::PidAllocator;
use edp_node::Node;
use erltf::types::Atom;
use serde_json::{Value, json};
use shuttle::scheduler::{DfsScheduler, PctScheduler, RandomScheduler};
use shuttle::sync::Arc;
use shuttle::sync::atomic::Ordering;
use shuttle::{Config, FailurePersistence, MaxSteps, Runner, thread};
use std::collections::HashSet;
use std::sync::Mutex as StdMutex;
use std::time::Instant;

const MAX_ID: u32 = 1_048_576;

#[derive(Clone, Debug)]
struct Cfg {
    name: String,
    threads: usize,
    calls: usize,
    /// next process number at the start
    start_id: u32,
    start_serial: u64,
    refs: bool,
    /// draw the start position per execution from shuttle::rand (around the wrap point)
    random_start: bool,
}

impl Cfg {
    fn to_json(&self) -> Value {
        json!({"name": self.name, "threads": self.threads, "calls": self.calls, "start_id": self.start_id, "start_serial": self.start_serial, "refs": self.refs, "random_start": self.random_start})
    }
    fn from_json(v: &Value) -> Cfg {
        Cfg {
            name: v["name"].as_str().unwrap_or("replay").to_string(),
            threads: v["threads"].as_u64().unwrap_or(2) as usize,
            calls: v["calls"].as_u64().unwrap_or(1) as usize,
            start_id: v["start_id"].as_u64().unwrap_or(1) as u32,
            start_serial: v["start_serial"].as_u64().unwrap_or(0),
            refs: v["refs"].as_bool().unwrap_or(false),
            random_start: v["random_start"].as_bool().unwrap_or(false),
        }
    }
}

static SIGS: StdMutex<Option<HashSet<u64>>> = StdMutex::new(None);
static NONTRIVIAL: StdMutex<Option<HashSet<u64>>> = StdMutex::new(None);
static SAMPLES: StdMutex<Vec<Value>> = StdMutex::new(Vec::new());
static WRAPS_SEEN: StdMutex<u64> = StdMutex::new(0);

fn mix(a: u64, b: u64) -> u64 {
    let mut z = a ^ b.wrapping_mul(0x9e37_79b9_7f4a_7c15).rotate_left(17);
    z = z.wrapping_add(0x9e37_79b9_7f4a_7c15);
    z = (z ^ (z >> 30)).wrapping_mul(0xbf58_476d_1ce4_e5b9);
    z = (z ^ (z >> 27)).wrapping_mul(0x94d0_49bb_1331_11eb);
    z ^ (z >> 31)
}

/// One execution: the body shuttle schedules. Panics (= violation) on a duplicate.
fn scenario(cfg: &Cfg) {
    use shuttle::rand::Rng;
    let creation = 7u32;
    let alloc = Arc::new(PidAllocator::new(Atom::new("n@h"), creation));
    let (mut start_id, mut start_serial) = (cfg.start_id, cfg.start_serial);
    if cfg.random_start {
        let mut rng = shuttle::rand::thread_rng();
        let span = (cfg.threads * cfg.calls) as u32 + 2;
        start_id = match rng.gen_range(0..4u32) {
            0 => 1,
            _ => MAX_ID - rng.gen_range(0..span),
        };
        start_serial = match rng.gen_range(0..3u32) {
            0 => 0,
            1 => u64::from(u32::MAX) - rng.gen_range(0..2u64),
            _ => rng.gen_range(0..1000u64),
        };
    }
    // History of the cycle that is about to end: the first identifiers of this serial are
    // allocated for real, then the counter is moved forward to the start position (only ever
    // forward, through the test accessor). Re-issuing one of them after the wrap is a duplicate.
    let mut history = Vec::new();
    alloc.next_serial_test_only().store(start_serial, Ordering::SeqCst);
    if start_id > 8 {
        alloc.next_id_test_only().store(1, Ordering::SeqCst);
        for _ in 0..(cfg.threads * cfg.calls + 1) {
            let p = alloc.allocate().expect("allocate");
            history.push((p.id, p.serial, p.creation));
        }
    }
    alloc.next_id_test_only().store(start_id, Ordering::SeqCst);
    if cfg.refs {
        // the creation EPMD hands out may equal the one already in force: identifiers made before
        // and after must still differ
        let p = alloc.allocate().expect("allocate");
        history.push((p.id, p.serial, p.creation));
        alloc.set_creation(creation);
    }
    let node = if cfg.refs { Some(Arc::new(Node::new("n@h", "cookie"))) } else { None };
    if let Some(n) = &node {
        // a listed connection that was never established: every signal sent over it fails
        let c = edp_client::Connection::new(edp_client::ConnectionConfig::new("n@h", "down@h", "cookie"));
        n.connections().insert("down@h".to_string(), Arc::new(tokio::sync::Mutex::new(c)));
    }
    // order in which allocations completed: the interleaving signature
    let order = Arc::new(shuttle::sync::Mutex::new(Vec::<u8>::new()));
    let mut handles = Vec::new();
    for t in 0..cfg.threads {
        let alloc = alloc.clone();
        let node = node.clone();
        let order = order.clone();
        let calls = cfg.calls;
        handles.push(thread::spawn(move || {
            let mut pids = Vec::new();
            let mut refs = Vec::new();
            for _ in 0..calls {
                let p = alloc.allocate().expect("allocate");
                pids.push((p.id, p.serial, p.creation));
                order.lock().unwrap().push(t as u8);
                if let Some(n) = &node {
                    if t % 2 == 1 {
                        // a monitor of a process on a node that is not connected fails; whatever it
                        // does with the reference it made must not disturb references made elsewhere
                        let from = erltf::types::ExternalPid::new(Atom::new("n@h"), 1, 0, 1);
                        let to = erltf::types::ExternalPid::new(Atom::new("elsewhere@h"), 1, 0, 1);
                        let res = shuttle::future::block_on(n.monitor(&from, &to));
                        assert!(res.is_err(), "monitor of a process on an unconnected node succeeded");
                        // the same over a connection that is listed but cannot send, and an unlink (its id
                        // comes from the same counter as the reference words)
                        let down = erltf::types::ExternalPid::new(Atom::new("down@h"), 1, 0, 1);
                        let _ = shuttle::future::block_on(n.unlink(&from, &down));
                        let _ = shuttle::future::block_on(n.monitor(&from, &down));
                    }
                    let r = n.make_reference();
                    refs.push((r.ids.clone(), r.creation));
                }
            }
            (pids, refs)
        }));
    }
    let mut all_pids = Vec::new();
    let mut all_refs = Vec::new();
    for h in handles {
        let (p, r) = h.join().unwrap();
        all_pids.extend(p);
        all_refs.extend(r);
    }
    let mut seen = HashSet::new();
    for (id, serial, cr) in &history {
        seen.insert((*id, *serial, *cr));
    }
    for (id, serial, cr) in &all_pids {
        assert_eq!(*cr, creation, "identifier carries creation {} instead of {}", cr, creation);
        assert!(seen.insert((*id, *serial, *cr)), "duplicate identifier <{}.{}> handed out (start id {}, serial {})", id, serial, start_id, start_serial);
    }
    let mut rseen = HashSet::new();
    for (ids, cr) in &all_refs {
        assert_eq!(*cr, 1, "reference carries creation {}", cr);
        // references are distinct as word vectors (how the words are laid out is the node's business)
        assert!(rseen.insert(ids.clone()), "duplicate reference {:?}", ids);
    }
    // bookkeeping for evidence (plain std mutexes: never held across a scheduling point)
    let ord = order.lock().unwrap().clone();
    let mut sig = mix(u64::from(start_id), start_serial);
    for b in &ord {
        sig = mix(sig, u64::from(*b));
    }
    for (id, serial, _) in &all_pids {
        sig = mix(sig, u64::from(*id) << 32 | u64::from(*serial));
    }
    let interleaved = ord.windows(2).filter(|w| w[0] != w[1]).count() >= cfg.threads;
    SIGS.lock().unwrap().get_or_insert_with(HashSet::new).insert(sig);
    if interleaved {
        NONTRIVIAL.lock().unwrap().get_or_insert_with(HashSet::new).insert(sig);
    }
    if all_pids.iter().any(|p| p.0 == MAX_ID) {
        *WRAPS_SEEN.lock().unwrap() += 1;
    }
    let mut s = SAMPLES.lock().unwrap();
    if s.len() < 3 && interleaved {
        s.push(json!({"config": cfg.name, "start_id": start_id, "start_serial": start_serial, "completion_order_by_thread": ord, "pids": all_pids.iter().map(|p| format!("<{}.{}>", p.0, p.1)).collect::<Vec<_>>()}));
    }
}

/// Single thread: a long history of references (and interleaved failing monitors) stays distinct.
fn sequential_refs(n: usize) {
    // two node objects used from one thread: each has its own references, and what one node hands out
    // does not depend on the other having been used before or in between
    {
        let a = Node::new("a@h", "cookie");
        let mut seen_a: HashSet<Vec<u32>> = HashSet::new();
        let mut seen_b: HashSet<Vec<u32>> = HashSet::new();
        for _ in 0..10 {
            assert!(seen_a.insert(a.make_reference().ids.clone()), "node a handed out a reference twice");
        }
        let b = Node::new("b@h", "cookie");
        for i in 0..3000 {
            let r = b.make_reference();
            assert!(seen_b.insert(r.ids.clone()), "reference #{} {:?} of a second node on the same thread is identical to an earlier one of that node", i, r.ids);
            if i % 3 == 0 {
                let r = a.make_reference();
                assert!(seen_a.insert(r.ids.clone()), "reference {:?} of the first node is identical to an earlier one of that node (a second node was used in between)", r.ids);
            }
        }
    }
    let node = Node::new("n@h", "cookie");
    let mut seen: HashSet<Vec<u32>> = HashSet::with_capacity(n);
    let from = erltf::types::ExternalPid::new(Atom::new("n@h"), 1, 0, 1);
    let to = erltf::types::ExternalPid::new(Atom::new("elsewhere@h"), 1, 0, 1);
    for i in 0..n {
        if i % 1000 == 7 {
            let _ = shuttle::future::block_on(node.monitor(&from, &to));
        }
        let r = node.make_reference();
        assert!(seen.insert(r.ids.clone()), "reference #{} {:?} is identical to an earlier one in a sequential history", i, r.ids);
    }
}

/// Single thread: the creation changes several times, also back to a value used before (an old-style
/// EPMD cycles 1, 2, 3, 1, ...), with allocations under each; every identifier carries the creation in
/// force and no (id, serial, creation) is handed out twice. `seed` picks the creations and run lengths.
fn sequential_creations(seed: u64, rounds: usize) {
    let alloc = PidAllocator::new(Atom::new("n@h"), 1);
    let mut seen: HashSet<(u32, u32, u32)> = HashSet::new();
    let mut x = seed | 1;
    let mut next = || {
        x ^= x << 13;
        x ^= x >> 7;
        x ^= x << 17;
        x
    };
    let mut creation = 1u32;
    for round in 0..rounds {
        let k = 1 + (next() % 40) as usize;
        for _ in 0..k {
            let p = alloc.allocate().expect("allocate");
            assert_eq!(p.creation, creation, "identifier {:?} does not carry the creation in force ({})", (p.id, p.serial, p.creation), creation);
            assert!(seen.insert((p.id, p.serial, p.creation)), "identifier <{}.{}> with creation {} is handed out twice in a sequential history in which the creation changed to another value and back (round {})", p.id, p.serial, p.creation, round);
        }
        creation = [1u32, 2, 3, 1, 2, 0xffff_ffff, 7][(next() % 7) as usize];
        alloc.set_creation(creation);
    }
}

/// Single thread, `n` allocations from `start_id`: distinctness across several wraps.
fn sequential(start_id: u32, start_serial: u64, n: usize) {
    let alloc = PidAllocator::new(Atom::new("n@h"), 9);
    alloc.next_id_test_only().store(start_id, Ordering::SeqCst);
    alloc.next_serial_test_only().store(start_serial, Ordering::SeqCst);
    let mut keys: Vec<u64> = Vec::with_capacity(n);
    for _ in 0..n {
        let p = alloc.allocate().expect("allocate");
        assert_eq!(p.creation, 9);
        keys.push(u64::from(p.serial) << 32 | u64::from(p.id));
    }
    let wraps = keys.iter().filter(|k| (**k & 0xffff_ffff) as u32 == MAX_ID).count();
    keys.sort_unstable();
    let before = keys.len();
    keys.dedup();
    assert_eq!(before, keys.len(), "sequential history of {} allocations from id {} serial {} re-issued {} identifiers", n, start_id, start_serial, before - keys.len());
    *WRAPS_SEEN.lock().unwrap() += wraps as u64;
}

fn shuttle_config(dir: &str) -> Config {
    let mut c = Config::new();
    c.failure_persistence = FailurePersistence::File(Some(dir.into()));
    // a retry loop under an unfair schedule is not a violation: give that execution up and go on
    c.max_steps = MaxSteps::ContinueAfter(100_000);
    c.stack_size = 0x40000;
    c
}

struct Outcome {
    iterations: usize,
    failed: Option<String>,
}

fn run_one<S: shuttle::scheduler::Scheduler + 'static>(sched: S, cfg: &Cfg, dir: &str) -> Outcome {
    let c2 = cfg.clone();
    let r = std::panic::catch_unwind(std::panic::AssertUnwindSafe(|| Runner::new(sched, shuttle_config(dir)).run(move || scenario(&c2))));
    match r {
        Ok(n) => Outcome { iterations: n, failed: None },
        Err(e) => {
            let msg = if let Some(s) = e.downcast_ref::<String>() {
                s.clone()
            } else if let Some(s) = e.downcast_ref::<&str>() {
                (*s).to_string()
            } else {
                "panic".to_string()
            };
            Outcome { iterations: 0, failed: Some(msg) }
        }
    }
}

fn newest_schedule(dir: &str, known: &HashSet<String>) -> Option<String> {
    let mut v: Vec<String> = std::fs::read_dir(dir).ok()?.filter_map(|e| e.ok()).map(|e| e.path().display().to_string()).filter(|p| p.ends_with(".txt") && !known.contains(p)).collect();
    v.sort();
    v.pop()
}

fn main() {
    let args: Vec<String> = std::env::args().collect();
    let verif_dir = std::env::var("VERIF_DIR").unwrap_or_else(|_| "/verif".to_string());
    let seed: u64 = std::env::var("VERIF_SEED").ok().and_then(|s| s.trim().parse().ok()).unwrap_or(20261003);
    match args.get(1).map(|s| s.as_str()) {
        Some("replay") => {
            let path = args.get(2).expect("replay file");
            let file: Value = serde_json::from_str(&std::fs::read_to_string(path).expect("read replay")).expect("json");
            let cfg = Cfg::from_json(&file["config"]);
            let sched_file = file["schedule_file"].as_str().unwrap_or("").to_string();
            let kind = file["kind"].as_str().unwrap_or("");
            let r = std::panic::catch_unwind(|| {
                if kind == "sequential" {
                    let c = cfg.clone();
                    let mut sc = Config::new();
                    sc.max_steps = MaxSteps::None;
                    sc.failure_persistence = FailurePersistence::None;
                    if c.name == "sequential-creations" {
                        Runner::new(DfsScheduler::new(None, false), sc).run(move || sequential_creations(c.start_serial, c.calls));
                    } else if c.name == "sequential-refs" {
                        Runner::new(DfsScheduler::new(None, false), sc).run(move || sequential_refs(c.calls));
                    } else {
                        Runner::new(DfsScheduler::new(None, false), sc).run(move || sequential(c.start_id, c.start_serial, c.calls));
                    }
                } else {
                    let c = cfg.clone();
                    shuttle::replay_from_file(move || scenario(&c), &sched_file);
                }
            });
            if r.is_err() {
                println!("REPRODUCED class={}", file["class"].as_str().unwrap_or(""));
                std::process::exit(1);
            }
            println!("not reproduced");
            std::process::exit(0);
        }
        Some("check") => {}
        _ => {
            eprintln!("usage: c16_shuttle check [quick|thorough] | replay <file>");
            std::process::exit(2);
        }
    }
    let thorough = args.get(2).map(|s| s == "thorough").unwrap_or(false) || std::env::var("VERIF_TIER").map(|s| s == "thorough").unwrap_or(false) && args.get(2).is_none();
    let tier = if thorough { "thorough" } else { "quick" };
    let t0 = Instant::now();
    let dir = format!("{}/replays/C16-s{}", verif_dir, seed);
    let _ = std::fs::create_dir_all(&dir);
    let known: HashSet<String> = std::fs::read_dir(&dir).map(|d| d.filter_map(|e| e.ok()).map(|e| e.path().display().to_string()).collect()).unwrap_or_default();
    println!("check C16 tier={} seed={}", tier, seed);

    let mk = |name: &str, threads, calls, start_id, start_serial, refs, random_start| Cfg { name: name.to_string(), threads, calls, start_id, start_serial, refs, random_start };
    // smallest configurations first: the first failure is the smallest failing one
    let dfs_cfgs = vec![
        mk("dfs-2x1-from-1", 2, 1, 1, 0, false, false),
        mk("dfs-2x1-at-wrap", 2, 1, MAX_ID, 0, false, false),
        mk("dfs-2x1-before-wrap", 2, 1, MAX_ID - 1, 5, false, false),
        mk("dfs-2x1-serial-wrap", 2, 1, MAX_ID, u64::from(u32::MAX), false, false),
        mk("dfs-2x2-before-wrap", 2, 2, MAX_ID - 2, 0, false, false),
        mk("dfs-3x1-before-wrap", 3, 1, MAX_ID - 1, 0, false, false),
        mk("dfs-2x1-refs", 2, 1, 1, 0, true, false),
    ];
    let mut total_iters = 0usize;
    let mut per_cfg: Vec<Value> = Vec::new();
    let mut dfs_complete = true;
    let mut failure: Option<(Cfg, String, &'static str)> = None;
    let dfs_cap = if thorough { 2_000_000 } else { 200_000 };
    for cfg in &dfs_cfgs {
        let o = run_one(DfsScheduler::new(Some(dfs_cap), false), cfg, &dir);
        if let Some(m) = o.failed {
            failure = Some((cfg.clone(), m, "dfs"));
            break;
        }
        if o.iterations >= dfs_cap {
            dfs_complete = false;
        }
        total_iters += o.iterations;
        per_cfg.push(json!({"config": cfg.name, "scheduler": "dfs", "schedules": o.iterations, "exhausted": o.iterations < dfs_cap}));
    }
    if failure.is_none() {
        let iters = if thorough { 400_000 } else { 20_000 };
        let mut jobs: Vec<(Cfg, &'static str, usize, u64)> = Vec::new();
        let mut n = 0u64;
        for threads in 2..=4usize {
            for calls in 1..=3usize {
                for refs in [false, true] {
                    let cfg = mk(&format!("rand-{}x{}{}", threads, calls, if refs { "-refs" } else { "" }), threads, calls, 1, 0, refs, true);
                    n += 1;
                    jobs.push((cfg.clone(), "random", 0, n));
                    for depth in [2usize, 3, 4] {
                        n += 1;
                        jobs.push((cfg.clone(), "pct", depth, n));
                    }
                }
            }
        }
        let jobs = std::sync::Arc::new(StdMutex::new(jobs.into_iter().enumerate().collect::<Vec<_>>()));
        let results: std::sync::Arc<StdMutex<Vec<(usize, Cfg, &'static str, usize, Outcome)>>> = std::sync::Arc::new(StdMutex::new(Vec::new()));
        let workers: usize = std::env::var("VERIF_THREADS").ok().and_then(|s| s.parse().ok()).unwrap_or(16);
        let mut hs = Vec::new();
        for _ in 0..workers {
            let (jobs, results, dir) = (jobs.clone(), results.clone(), dir.clone());
            hs.push(std::thread::spawn(move || loop {
                let job = jobs.lock().unwrap().pop();
                let Some((idx, (cfg, kind, depth, n))) = job else { break };
                let o = if kind == "random" { run_one(RandomScheduler::new_from_seed(mix(seed, n), iters), &cfg, &dir) } else { run_one(PctScheduler::new_from_seed(mix(seed, n), depth, iters / 4), &cfg, &dir) };
                results.lock().unwrap().push((idx, cfg, kind, depth, o));
            }));
        }
        for h in hs {
            let _ = h.join();
        }
        let mut results = std::mem::take(&mut *results.lock().unwrap());
        results.sort_by_key(|r| r.0);
        for (_, cfg, kind, depth, o) in results {
            if let Some(m) = o.failed {
                if failure.is_none() {
                    failure = Some((cfg, m, kind));
                }
                continue;
            }
            total_iters += o.iterations;
            per_cfg.push(json!({"config": cfg.name, "scheduler": if kind == "pct" { format!("pct-depth-{}", depth) } else { "random".to_string() }, "schedules": o.iterations}));
        }
    }
    // sequential multi-wrap history (single thread under the same build)
    let mut seq_allocs = 0usize;
    let mut seq_failure: Option<(Cfg, String)> = None;
    if failure.is_none() {
        let wraps = if thorough { 3 } else { 1 };
        for (start_id, start_serial) in [(1u32, 0u64), (MAX_ID - 5, u64::from(u32::MAX) - 1)] {
            let n = wraps * (MAX_ID as usize) + 1000;
            let dir2 = dir.clone();
            let r = std::panic::catch_unwind(move || {
                let mut c = shuttle_config(&dir2);
                c.max_steps = MaxSteps::None;
                Runner::new(DfsScheduler::new(None, false), c).run(move || sequential(start_id, start_serial, n));
            });
            if let Err(e) = r {
                let msg = e.downcast_ref::<String>().cloned().unwrap_or_else(|| "panic".into());
                seq_failure = Some((mk("sequential", 1, n, start_id, start_serial, false, false), msg));
                break;
            }
            seq_allocs += n;
        }
    }

    let mut seq_refs = 0usize;
    if failure.is_none() && seq_failure.is_none() {
        let n = if thorough { 2_000_000 } else { 400_000 };
        let dir2 = dir.clone();
        let r = std::panic::catch_unwind(move || {
            let mut c = shuttle_config(&dir2);
            c.max_steps = MaxSteps::None;
            Runner::new(DfsScheduler::new(None, false), c).run(move || sequential_refs(n));
        });
        if let Err(e) = r {
            let msg = e.downcast_ref::<String>().cloned().unwrap_or_else(|| "panic".into());
            seq_failure = Some((mk("sequential-refs", 1, n, 0, 0, true, false), msg));
        } else {
            seq_refs = n;
        }
    }

    let mut seq_creation_rounds = 0usize;
    if failure.is_none() && seq_failure.is_none() {
        let histories = if thorough { 2000 } else { 200 };
        for h in 0..histories {
            let hseed = seed.wrapping_mul(0x9e37_79b9_7f4a_7c15).wrapping_add(h as u64);
            let dir2 = dir.clone();
            let r = std::panic::catch_unwind(move || {
                let mut c = shuttle_config(&dir2);
                c.max_steps = MaxSteps::None;
                Runner::new(DfsScheduler::new(None, false), c).run(move || sequential_creations(hseed, 30));
            });
            if let Err(e) = r {
                let msg = e.downcast_ref::<String>().cloned().unwrap_or_else(|| "panic".into());
                seq_failure = Some((mk("sequential-creations", 1, 30, 0, hseed, false, false), msg));
                break;
            }
            seq_creation_rounds += 30;
        }
    }

    let mut violations = 0;
    if let Some((cfg, msg, kind)) = &failure {
        let sched = newest_schedule(&dir, &known).unwrap_or_default();
        let path = format!("{}/replays/C16-{}-s{}.json", verif_dir, cfg.name, seed);
        let file = json!({"property": "C16", "class": "duplicate-identifier", "detail": msg, "config": cfg.to_json(), "scheduler": kind, "schedule_file": sched, "seed": seed});
        std::fs::write(&path, serde_json::to_string_pretty(&file).unwrap()).expect("write replay");
        // replay in a fresh process
        let exe = std::env::current_exe().unwrap();
        let ok = std::process::Command::new(exe).arg("replay").arg(&path).output().map(|o| o.status.code() == Some(1)).unwrap_or(false);
        if !ok {
            eprintln!("HARNESS ERROR: the persisted schedule did not reproduce the failure in a fresh process");
            std::process::exit(2);
        }
        println!("violation class=duplicate-identifier config={} detail={}", cfg.name, msg.lines().next().unwrap_or(""));
        println!("VIOLATION property=C16 replay={}", path);
        violations += 1;
    }
    if let Some((cfg, msg)) = &seq_failure {
        let path = format!("{}/replays/C16-sequential-s{}.json", verif_dir, seed);
        let file = json!({"property": "C16", "class": "duplicate-identifier-sequential", "kind": "sequential", "detail": msg, "config": cfg.to_json(), "seed": seed});
        std::fs::write(&path, serde_json::to_string_pretty(&file).unwrap()).expect("write replay");
        println!("violation class=duplicate-identifier-sequential detail={}", msg.lines().next().unwrap_or(""));
        println!("VIOLATION property=C16 replay={}", path);
        violations += 1;
    }

    let wall = t0.elapsed().as_secs_f64();
    let sigs = SIGS.lock().unwrap().as_ref().map(|s| s.len()).unwrap_or(0);
    let nontrivial = NONTRIVIAL.lock().unwrap().as_ref().map(|s| s.len()).unwrap_or(0);
    let ev = json!({
        "property_id": "C16", "tier": tier, "seed": seed, "level": "exploration",
        "coverage": {
            "evaluations": total_iters.max(1),
            "distinct_nontrivial": nontrivial,
            "rule": "one evaluation = one complete execution of 2..4 shuttle threads x 1..3 real PidAllocator::allocate calls (optionally followed by Node::make_reference) under a schedule chosen by shuttle: DFS over every schedule for the small configurations listed in per_configuration, seeded random and PCT (depth 2..4) schedules for the rest, counters started at 1, just before / at the 2^20 wrap and just before the serial's 32-bit wrap (drawn from shuttle::rand for the random configurations). Distinct = distinct (start position, completion order of allocations by thread, identifiers returned); non-trivial = the threads' allocations interleave.",
            "samples": SAMPLES.lock().unwrap().clone(),
            "distinct_signatures_all": sigs,
            "per_configuration": per_cfg,
            "dfs_configurations_exhausted": dfs_complete,
            "executions_that_crossed_the_wrap_point": *WRAPS_SEEN.lock().unwrap(),
            "sequential_allocations_checked": seq_allocs,
            "sequential_references_checked": seq_refs,
            "sequential_creation_changes_checked": seq_creation_rounds,
            "runs_per_hour": if wall > 0.0 { (total_iters as f64 / wall * 3600.0) as u64 } else { 0 },
            "components_real": ["edp_client::pid_allocator::PidAllocator::allocate", "edp_node::Node::make_reference", "edp_node::Node::new"],
            "components_stubbed": ["std::sync::Mutex and atomics replaced by shuttle's (scheduling points at every lock / atomic step)"],
            "faults_fired": {"preemption_at_every_sync_step": total_iters},
        },
        "assumptions": ["shuttle treats every atomic ordering as sequentially consistent; weak-memory effects of the Relaxed accesses are not explored", "DFS bound per configuration is reported in per_configuration (exhausted=false means the cap was hit)"],
        "wall_s": wall,
        "violations": violations,
    });
    let _ = std::fs::create_dir_all(format!("{}/evidence", verif_dir));
    std::fs::write(format!("{}/evidence/C16.json", verif_dir), serde_json::to_string_pretty(&ev).unwrap()).expect("write evidence");
    println!("C16 {}: {} schedules, {} distinct executions ({} interleaved), {} sequential allocations, {:.1}s wall, violations {}", tier, total_iters, sigs, nontrivial, seq_allocs, wall, violations);
    std::process::exit(if violations > 0 { 1 } else { 0 });
}
