//! C09 — fragment reassembly returns the original message once, in any arrival order.

use crate::core::{Rng, Tape, World, execute};
use crate::runner::{Info, RunOutput, Scenario, Tier, finish};
use edp_client::fragmentation::FragmentAssembler;
use serde::{Deserialize, Serialize};
use serde_json::Value;
use std::collections::{BTreeMap, BTreeSet};
use std::sync::Arc;
use std::time::Duration;

#[derive(Clone, Debug, Serialize, Deserialize, Default)]
struct SeqSpec {
    id: u64,
    len: u32,
    /// number of fragments (1..8)
    n: u32,
    cut_seed: u64,
    /// bytes handed to start_fragment as atom_cache_data (0 = None)
    #[serde(default)]
    prefix_len: u32,
}

#[derive(Clone, Debug, Serialize, Deserialize, Default)]
struct Delivery {
    seq: u32,
    /// fragment id to deliver; the header is the fragment whose id equals n
    frag: u64,
    /// simulated ms to let pass before this delivery
    #[serde(default)]
    wait_ms: u64,
    /// call cleanup_expired() before this delivery
    #[serde(default)]
    cleanup: bool,
}

#[derive(Clone, Debug, Serialize, Deserialize, Default)]
struct Plan {
    /// "channel" | "permutations"
    kind: String,
    #[serde(default)]
    seqs: Vec<SeqSpec>,
    #[serde(default)]
    deliveries: Vec<Delivery>,
    #[serde(default)]
    timeout_ms: u64,
    #[serde(default)]
    salt: u64,
}

pub struct C09;

fn pieces(s: &SeqSpec) -> (Vec<u8>, Vec<u8>, Vec<Vec<u8>>) {
    // returns (prefix, data, fragments in wire order: index 0 is the header fragment, id n)
    let mut r = Rng::new(s.cut_seed);
    let prefix = r.bytes(s.prefix_len as usize);
    let mut data = r.bytes(s.len as usize);
    for (i, b) in data.iter_mut().enumerate() {
        // make positions recognisable so that a wrong order is never equal by accident
        *b = (*b & 0xf0) | (i as u8 & 0x0f);
    }
    let n = s.n.clamp(1, 700) as usize;
    let mut cuts: Vec<usize> = (0..n - 1).map(|_| r.below(u64::from(s.len) + 1) as usize).collect();
    cuts.sort();
    let mut frags = Vec::new();
    let mut start = 0;
    for c in cuts {
        frags.push(data[start..c].to_vec());
        start = c;
    }
    frags.push(data[start..].to_vec());
    (prefix, data, frags)
}

fn gen_seq(r: &mut Rng, used: &mut BTreeSet<u64>) -> SeqSpec {
    let mut id = match r.below(6) {
        0 => 0,
        1 => u64::MAX,
        2 => 1 << 63,
        3 => r.below(5),
        _ => r.next_u64(),
    };
    while !used.insert(id) {
        id = id.wrapping_add(1);
    }
    SeqSpec { id, len: *r.pick(&[0u32, 1, 2, 7, 40, 300]), n: r.range(1, 8) as u32, cut_seed: r.next_u64(), prefix_len: if r.chance(1, 5) { r.range(1, 6) as u32 } else { 0 } }
}

impl Scenario for C09 {
    fn id(&self) -> &'static str {
        "C09"
    }

    fn runs(&self, tier: Tier) -> u64 {
        match tier {
            Tier::Quick => 200_000,
            Tier::Thorough => 8_000_000,
        }
    }

    fn gen_plan(&self, r: &mut Rng, tier: Tier, _index: u64) -> Value {
        let mut used = BTreeSet::new();
        if r.chance(1, 6) {
            // every arrival order of one sequence (n <= 5, 6 in the thorough tier)
            let mut s = gen_seq(r, &mut used);
            s.n = r.range(1, if tier == Tier::Thorough { 6 } else { 5 }) as u32;
            let p = Plan { kind: "permutations".into(), seqs: vec![s], deliveries: Vec::new(), timeout_ms: 30_000, salt: r.next_u64() };
            return serde_json::to_value(p).unwrap();
        }
        if r.chance(1, 8) {
            // the same sequence id carrying 2..4 messages one after the other (an id is free again once its
            // message is complete); each message arrives in a seeded order, duplicates only while incomplete
            let first = gen_seq(r, &mut used);
            let k = r.range(2, 4) as usize;
            let mut seqs = vec![first.clone()];
            for _ in 1..k {
                let mut s = gen_seq(r, &mut BTreeSet::new());
                s.id = first.id;
                seqs.push(s);
            }
            let timeout_ms = *r.pick(&[30_000u64, 1_000]);
            let mut deliveries = Vec::new();
            for (si, s) in seqs.iter().enumerate() {
                let mut order: Vec<u64> = (1..=u64::from(s.n)).collect();
                for i in (1..order.len()).rev() {
                    let j = r.below(i as u64 + 1) as usize;
                    order.swap(i, j);
                }
                let mut group: Vec<u64> = Vec::new();
                for (pos, f) in order.iter().enumerate() {
                    group.push(*f);
                    if pos + 1 < order.len() && r.chance(1, 6) {
                        group.push(*f); // duplicate while the message is still incomplete
                    }
                }
                for (gi, f) in group.iter().enumerate() {
                    deliveries.push(Delivery {
                        seq: si as u32,
                        frag: *f,
                        wait_ms: if r.chance(1, 5) { timeout_ms / 3 } else { 0 },
                        cleanup: gi == 0 && r.chance(1, 3),
                    });
                }
            }
            let p = Plan { kind: "reuse".into(), seqs, deliveries, timeout_ms, salt: r.next_u64() };
            return serde_json::to_value(p).unwrap();
        }
        if r.chance(1, 60) {
            // messages in hundreds of fragments: one is abandoned half way (its assembler dropped, cleared, or the
            // sequence expired and swept), another one - in the same process - then arrives completely
            let mut a = gen_seq(r, &mut used);
            a.n = r.range(256, 600) as u32;
            a.len = r.range(600, 2000) as u32;
            let mut b = gen_seq(r, &mut used);
            b.n = r.range(u64::from(a.n), 700) as u32;
            b.len = r.range(700, 2500) as u32;
            let p = Plan { kind: "large".into(), seqs: vec![a, b], deliveries: Vec::new(), timeout_ms: 1_000, salt: r.next_u64() };
            return serde_json::to_value(p).unwrap();
        }
        // now and then a crowd: dozens to hundreds of sequences in flight at once, each short
        let crowd = r.chance(1, 40);
        let n_seqs = if crowd { if r.chance(1, 4) { r.range(1_000, 1_300) as usize } else { r.range(60, 520) as usize } } else { r.range(1, 4) as usize };
        let seqs: Vec<SeqSpec> = (0..n_seqs)
            .map(|_| {
                let mut s = gen_seq(r, &mut used);
                if crowd {
                    s.n = if n_seqs >= 1_000 { r.range(2, 3) as u32 } else { r.range(1, 3) as u32 };
                    s.len = s.len.min(40);
                }
                s
            })
            .collect();
        // u64::MAX stands for Duration::MAX, u64::MAX - 1 for Duration::from_secs(u64::MAX): "never expires"
        let timeout_ms = *r.pick(&[30_000u64, 1_000, 50, 30_000, 1_000, 50, u64::MAX, u64::MAX - 1]);
        let mut pool: Vec<Delivery> = Vec::new();
        for (si, s) in seqs.iter().enumerate() {
            for id in 1..=u64::from(s.n) {
                match r.below(12) {
                    0 => continue, // dropped: the sequence stays incomplete
                    1 => {
                        pool.push(Delivery { seq: si as u32, frag: id, ..Default::default() });
                        pool.push(Delivery { seq: si as u32, frag: id, ..Default::default() });
                    }
                    2 => {
                        pool.push(Delivery { seq: si as u32, frag: id, ..Default::default() });
                        pool.push(Delivery { seq: si as u32, frag: *r.pick(&[0u64, u64::from(s.n) + 1, 1 << 63, u64::MAX, (1u64 << 32) + id, (3u64 << 32) + id, (1u64 << 16) + id, (1u64 << 8) + id]), ..Default::default() });
                    }
                    _ => pool.push(Delivery { seq: si as u32, frag: id, ..Default::default() }),
                }
            }
        }
        // seeded permutation = the unordered channel
        for i in (1..pool.len()).rev() {
            let j = r.below(i as u64 + 1) as usize;
            pool.swap(i, j);
        }
        if n_seqs >= 1_000 {
            // the very large crowds stay incomplete together: one delivery of every sequence is held back
            // until all the others are through
            let mut last_of: BTreeMap<u32, usize> = BTreeMap::new();
            for (i, d) in pool.iter().enumerate() {
                last_of.insert(d.seq, i);
            }
            let held: BTreeSet<usize> = last_of.values().copied().collect();
            let (mut first, mut tail): (Vec<Delivery>, Vec<Delivery>) = (Vec::new(), Vec::new());
            for (i, d) in pool.drain(..).enumerate() {
                if held.contains(&i) { tail.push(d) } else { first.push(d) }
            }
            first.extend(tail);
            pool = first;
        }
        for d in pool.iter_mut() {
            d.wait_ms = match r.below(8) {
                _ if crowd && !r.chance(1, 50) => 0,
                _ if timeout_ms >= u64::MAX - 1 => *r.pick(&[0u64, 0, 1, 60_000, 600_000]),
                0 => timeout_ms + 1,
                1 => timeout_ms,
                2 => timeout_ms / 2,
                _ => 0,
            };
            d.cleanup = r.chance(1, 4);
        }
        let p = Plan { kind: "channel".into(), seqs, deliveries: pool, timeout_ms, salt: r.next_u64() };
        serde_json::to_value(p).unwrap()
    }

    fn run(&self, plan: &Value, tape: Tape, keep: bool) -> RunOutput {
        let p: Plan = match serde_json::from_value(plan.clone()) {
            Ok(p) => p,
            Err(_) => return RunOutput::default(),
        };
        if p.deliveries.iter().map(|d| d.wait_ms as u128).sum::<u128>() > 40 * 3_600_000 {
            return RunOutput::default(); // longer than the run's horizon
        }
        if p.seqs.is_empty() || p.seqs.len() > 1400 || p.seqs.iter().any(|s| s.n == 0 || (s.n > 8 && p.kind != "large") || s.n > 700) {
            return RunOutput::default();
        }
        if p.kind == "reuse" {
            if !reuse_plan_ok(&p) {
                return RunOutput::default();
            }
        } else {
            let mut ids = BTreeSet::new();
            if !p.seqs.iter().all(|s| ids.insert(s.id)) {
                return RunOutput::default();
            }
        }
        let world = World::new(tape, keep, p.salt);
        let nontrivial = p.kind == "permutations" || p.kind == "large" || p.seqs.iter().any(|s| s.n > 1);
        let ex = execute(&world, 48 * 3_600_000, |w| async move {
            if p.kind == "permutations" {
                permutations(&w, &p).await;
            } else if p.kind == "reuse" {
                reuse(&w, &p).await;
            } else if p.kind == "large" {
                large(&w, &p).await;
            } else {
                channel(&w, &p).await;
            }
        });
        finish(&world, &ex, nontrivial)
    }

    fn info(&self) -> Info {
        Info {
            rule: "one run = 1..4 sequences (arbitrary 64-bit ids; message of 0..300 bytes cut at seeded positions into 1..8 fragments numbered N..1 as the protocol prescribes, header = fragment N) put on an unordered channel: seeded delivery permutation, duplicates, drops, out-of-range ids (0, N+1, 2^63, 2^64-1, and valid ids plus a multiple of 2^8, 2^16, 2^32), simulated time passing between deliveries up to beyond the expiry timeout, cleanup_expired calls; or (kind reuse) 2..4 messages one after the other on the same sequence id, each in a seeded arrival order with duplicates while incomplete; or (kind permutations) every one of the N! arrival orders of one sequence, N <= 5 (6 thorough), counted in counters.c09.orders_enumerated. Reference model = per sequence the set of ids seen + whether the header was seen + last update time. Non-trivial = more than one fragment; distinct = distinct event log.",
            components_real: &["edp_client::fragmentation::FragmentAssembler (start_fragment, add_fragment, cleanup_expired, pending_count)", "tokio paused clock behind Instant (hook H5)"],
            components_stubbed: &["the unordered, duplicating, dropping channel (simulator)", "decode_fragment_header/cont and Connection::receive_message are not in this loop (see C06)"],
            assumptions: &["FragmentAssembler::new() and ::default() both mean the documented 30 s timeout", "a result equal to the ascending-fragment-id concatenation but different from the original message is classified separately (order-ascending-id) from any other wrong result"],
            fault_prefixes: &["fault."],
            expected_probes: &["probe.c09.completed", "probe.c09.completed_header_last", "probe.c09.completed_header_first", "probe.c09.duplicate_ignored", "probe.c09.out_of_range_ignored", "probe.c09.expired_removed", "probe.c09.incomplete_stays_pending", "probe.c09.interleaved_sequences", "probe.c09.reused_id_completed", "probe.c09.reused_id_continuation_first", "probe.c09.late_duplicate_after_completion", "probe.c09.built_with_new", "probe.c09.built_with_default", "probe.c09.timeout_means_never", "probe.c09.crowd_of_sequences", "probe.c09.long_sequence_abandoned", "probe.c09.more_than_1024_sequences"],
        }
    }
}

/// A plan of kind "reuse" as the generator makes them: one id, deliveries grouped message by message, every
/// fragment of a message delivered, the delivery that completes a message being the last one of its group.
fn reuse_plan_ok(p: &Plan) -> bool {
    if p.seqs.len() < 2 || p.seqs.iter().any(|s| s.id != p.seqs[0].id) || p.timeout_ms < 30 {
        return false;
    }
    let mut cur = 0u32;
    let mut seen: BTreeSet<u64> = BTreeSet::new();
    let mut last_new = false;
    for d in &p.deliveries {
        if d.wait_ms * 3 > p.timeout_ms {
            return false;
        }
        if d.seq != cur {
            let n = u64::from(p.seqs[cur as usize].n);
            if d.seq != cur + 1 || d.seq as usize >= p.seqs.len() || seen.len() as u64 != n || !last_new {
                return false;
            }
            cur = d.seq;
            seen.clear();
        }
        let n = u64::from(p.seqs[cur as usize].n);
        if d.frag < 1 || d.frag > n {
            return false;
        }
        last_new = seen.insert(d.frag);
        if seen.len() as u64 == n && !last_new {
            return false; // a duplicate after completion
        }
    }
    let n = u64::from(p.seqs[cur as usize].n);
    cur as usize + 1 == p.seqs.len() && seen.len() as u64 == n && last_new
}

async fn large(w: &Arc<World>, p: &Plan) {
    if p.seqs.len() != 2 {
        return;
    }
    let mut r = Rng::new(p.salt ^ 0x1a46e);
    // first message: header and a part of the continuations, then it is given up
    let how = r.below(3);
    let mut asm = FragmentAssembler::with_timeout(Duration::from_millis(p.timeout_ms.max(100)));
    {
        let s = &p.seqs[0];
        let (prefix, _data, frags) = pieces(s);
        let n = frags.len() as u64;
        let _ = asm.start_fragment(s.id, n, if prefix.is_empty() { None } else { Some(prefix) }, frags[0].clone());
        for id in (1..n).rev() {
            if r.chance(2, 3) {
                if asm.add_fragment(s.id, id, frags[(n - id) as usize].clone()).is_some() && id != 1 {
                    w.violation("premature-or-repeated", format!("a message of {} fragments completed at fragment {}", n, id));
                    return;
                }
            }
        }
    }
    match how {
        0 => {
            asm = FragmentAssembler::with_timeout(Duration::from_millis(p.timeout_ms.max(100)));
        }
        1 => asm.clear(),
        _ => {
            tokio::time::sleep(Duration::from_millis(2 * p.timeout_ms.max(100) + 10)).await;
            let _ = asm.cleanup_expired();
        }
    }
    w.stat("probe.c09.long_sequence_abandoned");
    if asm.pending_count() != 0 {
        // (a sequence that was not swept because it is not yet expired is fine; dropped and cleared ones are gone)
        if how != 2 {
            w.violation("pending-count", format!("{} sequences pending in a fresh or cleared assembler", asm.pending_count()));
            return;
        }
    }
    // second message: every fragment, header first, then the continuations in a seeded order
    let s = &p.seqs[1];
    let (prefix, _data, frags) = pieces(s);
    let n = frags.len() as u64;
    let mut order: Vec<u64> = (1..n).collect();
    for i in (1..order.len()).rev() {
        let j = r.below(i as u64 + 1) as usize;
        order.swap(i, j);
    }
    let mut res = asm.start_fragment(s.id, n, if prefix.is_empty() { None } else { Some(prefix) }, frags[0].clone());
    for (k, id) in order.iter().enumerate() {
        if res.is_some() {
            w.violation("premature-or-repeated", format!("a message of {} fragments completed after {} of them", n, k + 1));
            return;
        }
        res = asm.add_fragment(s.id, *id, frags[(n - id) as usize].clone());
    }
    match res {
        Some(bytes) => classify(w, s, &bytes, &format!("a message of {} fragments after one of {} was abandoned", n, p.seqs[0].n)),
        None => w.violation("not-completed", format!("all {} fragments of a message were delivered (after a message of {} fragments had been abandoned in the same process) but nothing was returned", n, p.seqs[0].n)),
    }
}

async fn reuse(w: &Arc<World>, p: &Plan) {
    let mut asm = FragmentAssembler::with_timeout(Duration::from_millis(p.timeout_ms));
    let mut seen: BTreeSet<u64> = BTreeSet::new();
    let mut cur = 0u32;
    for (k, d) in p.deliveries.iter().enumerate() {
        if d.seq != cur {
            cur = d.seq;
            seen.clear();
        }
        let s = &p.seqs[d.seq as usize];
        if d.wait_ms > 0 {
            tokio::time::sleep(Duration::from_millis(d.wait_ms)).await;
        }
        if d.cleanup {
            // nothing here has been idle for longer than a third of the timeout
            let removed = asm.cleanup_expired();
            if removed > 0 {
                w.violation("expiry", format!("delivery {}: cleanup_expired() removed {} sequences, none had been idle longer than the timeout", k, removed));
                return;
            }
        }
        let (prefix, _data, frags) = pieces(s);
        let n = frags.len() as u64;
        let is_header = d.frag == n;
        let payload = frags[(n - d.frag) as usize].clone();
        let res = if is_header {
            asm.start_fragment(s.id, d.frag, if prefix.is_empty() { None } else { Some(prefix.clone()) }, payload)
        } else {
            asm.add_fragment(s.id, d.frag, payload)
        };
        seen.insert(d.frag);
        let complete = seen.len() as u64 == n;
        w.ev(format!("reuse deliver {} message#{} frag {} -> {}", k, d.seq, d.frag, res.as_ref().map(|b| b.len() as i64).unwrap_or(-1)));
        match (complete, &res) {
            (true, Some(bytes)) => {
                classify(w, s, bytes, &format!("message {} on the reused sequence id completed at delivery {}", d.seq, k));
                if d.seq > 0 {
                    w.stat("probe.c09.reused_id_completed");
                    if !is_header {
                        w.stat("probe.c09.reused_id_continuation_first");
                    }
                }
                if asm.pending_count() != 0 {
                    w.violation("pending-count", format!("after message {} on the reused id completed, pending_count() is {}", d.seq, asm.pending_count()));
                    return;
                }
            }
            (true, None) => {
                w.violation("not-completed", format!("delivery {} supplied the last missing fragment of message {} on a sequence id used before ({} fragments) but nothing was returned", k, d.seq, n));
                return;
            }
            (false, Some(bytes)) => {
                w.violation("premature-or-repeated", format!("delivery {} (fragment {} of message {} on a reused id) returned {} bytes although the message is not complete", k, d.frag, d.seq, bytes.len()));
                return;
            }
            (false, None) => {
                if asm.pending_count() != 1 {
                    w.violation("pending-count", format!("after delivery {}: pending_count() is {} with one incomplete sequence", k, asm.pending_count()));
                    return;
                }
            }
        }
    }
}

#[derive(Default, Clone)]
struct ModelRec {
    /// created by a fragment that arrived after its sequence had already completed (a late duplicate,
    /// which an assembler may keep as the beginning of a new message or drop)
    orphan: bool,
    header: bool,
    ids: BTreeSet<u64>,
    last_update_ms: u64,
}

fn classify(w: &Arc<World>, s: &SeqSpec, got: &[u8], context: &str) {
    let (prefix, data, frags) = pieces(s);
    let mut original = prefix.clone();
    original.extend_from_slice(&data);
    if got == original.as_slice() {
        w.stat("probe.c09.completed");
        return;
    }
    let mut asc = prefix.clone();
    for f in frags.iter().rev() {
        asc.extend_from_slice(f);
    }
    if got == asc.as_slice() {
        w.violation("order-ascending-id", format!("{}: a message cut into {} fragments (first fragment numbered {}, counting down to 1) was reassembled by ascending fragment number, i.e. the last fragment's bytes come first", context, frags.len(), frags.len()));
    } else {
        w.violation("wrong-bytes", format!("{}: reassembled {} bytes that are neither the original {} bytes nor any fragment-order variant of it", context, got.len(), original.len()));
    }
}

async fn channel(w: &Arc<World>, p: &Plan) {
    // the documented default (30 s) can be asked for in three ways
    let mut asm = match (p.timeout_ms, p.salt % 3) {
        (30_000, 1) => {
            w.stat("probe.c09.built_with_new");
            FragmentAssembler::new()
        }
        (30_000, 2) => {
            w.stat("probe.c09.built_with_default");
            FragmentAssembler::default()
        }
        (u64::MAX, _) => {
            w.stat("probe.c09.timeout_means_never");
            FragmentAssembler::with_timeout(Duration::MAX)
        }
        (t, _) if t == u64::MAX - 1 => {
            w.stat("probe.c09.timeout_means_never");
            FragmentAssembler::with_timeout(Duration::from_secs(u64::MAX))
        }
        _ => FragmentAssembler::with_timeout(Duration::from_millis(p.timeout_ms)),
    };
    let mut model: BTreeMap<u32, ModelRec> = BTreeMap::new();
    let mut seen_seqs = BTreeSet::new();
    let mut completed_once: BTreeSet<u32> = BTreeSet::new();
    for (k, d) in p.deliveries.iter().enumerate() {
        let Some(s) = p.seqs.get(d.seq as usize) else { continue };
        if d.wait_ms > 0 {
            tokio::time::sleep(Duration::from_millis(d.wait_ms)).await;
        }
        let now = World::now_ms();
        if d.cleanup {
            if model.values().any(|r| now - r.last_update_ms == p.timeout_ms) {
                // exactly at the boundary the property does not say which way it goes
                w.stat("c09.expiry_boundary_skipped");
                return;
            }
            let before: Vec<u32> = model.keys().copied().collect();
            model.retain(|_, r| now - r.last_update_ms <= p.timeout_ms);
            let removed_model = before.len() - model.len();
            let removed = asm.cleanup_expired();
            // (an assembler that drops expired sequences on its own, earlier, reports fewer here; what
            // counts is what is held afterwards, checked just below)
            if removed > removed_model {
                w.violation("expiry", format!("delivery {}: cleanup_expired() removed {} sequences, only {} had been idle longer than the timeout", k, removed, removed_model));
                return;
            }
            if removed > 0 {
                w.stat("probe.c09.expired_removed");
            }
            let genuine = model.values().filter(|r| !r.orphan).count();
            if asm.pending_count() > model.len() || asm.pending_count() < genuine {
                w.violation("pending-count", format!("after cleanup: pending_count() is {} with {} incomplete unexpired sequences ({} of them begun by a late duplicate)", asm.pending_count(), model.len(), model.len() - genuine));
                return;
            }
        }
        let (prefix, _data, frags) = pieces(s);
        let n = frags.len() as u64;
        let is_header = d.frag == n;
        let payload = if d.frag >= 1 && d.frag <= n { frags[(n - d.frag) as usize].clone() } else { vec![0xEE; 3] };
        seen_seqs.insert(d.seq);
        let res = if is_header {
            asm.start_fragment(s.id, d.frag, if prefix.is_empty() { None } else { Some(prefix.clone()) }, payload)
        } else {
            asm.add_fragment(s.id, d.frag, payload)
        };
        // model
        if let Some(r) = model.get(&d.seq) {
            if now - r.last_update_ms > p.timeout_ms {
                // expired by the clock but not swept yet: whether it still counts is not determined
                w.stat("c09.touch_of_expired_unswept_skipped");
                return;
            }
        }
        let fresh = !model.contains_key(&d.seq);
        let rec = model.entry(d.seq).or_default();
        if fresh && completed_once.contains(&d.seq) {
            rec.orphan = true;
            w.stat("probe.c09.late_duplicate_after_completion");
        }
        let orphan = rec.orphan;
        rec.last_update_ms = now;
        if is_header {
            rec.header = true;
            // ids buffered before the header that are out of range are dropped now
            rec.ids.retain(|i| *i >= 1 && *i <= n);
        }
        let in_range = d.frag >= 1 && (d.frag <= n || !rec.header);
        if d.frag == 0 {
            w.stat("probe.c09.out_of_range_ignored");
        } else if in_range {
            if !rec.ids.insert(d.frag) {
                w.stat("probe.c09.duplicate_ignored");
            }
        } else {
            w.stat("probe.c09.out_of_range_ignored");
        }
        let complete = rec.header && (1..=n).all(|i| rec.ids.contains(&i));
        w.ev(format!("deliver {} seq#{} frag {} header={} -> {}", k, d.seq, d.frag, is_header, res.as_ref().map(|b| b.len() as i64).unwrap_or(-1)));
        match (complete, &res) {
            (true, Some(bytes)) => {
                classify(w, s, bytes, &format!("sequence {} completed at delivery {}", d.seq, k));
                if is_header {
                    w.stat("probe.c09.completed_header_last");
                } else if rec.ids.len() as u64 == n {
                    w.stat("probe.c09.completed_header_first");
                }
                model.remove(&d.seq);
                completed_once.insert(d.seq);
            }
            (true, None) if orphan => {
                // late duplicates of a finished message that add up to the whole message again: returning it a
                // second time (a new message on the same id) or ignoring them (duplicates) both fit the statement
                w.stat("c09.late_duplicates_complete_again_ignored");
                return;
            }
            (true, None) => {
                w.violation("not-completed", format!("delivery {} supplied the last missing fragment of sequence {} ({} fragments) but nothing was returned", k, d.seq, n));
                return;
            }
            (false, Some(bytes)) => {
                w.violation("premature-or-repeated", format!("delivery {} (fragment {} of sequence {}) returned {} bytes although the sequence is not complete", k, d.frag, d.seq, bytes.len()));
                return;
            }
            (false, None) => {}
        }
        let unexpired = model.values().filter(|r| !r.orphan && now - r.last_update_ms <= p.timeout_ms).count();
        let pc = asm.pending_count();
        if pc > model.len() || pc < unexpired {
            w.violation("pending-count", format!("after delivery {}: pending_count() is {} with {} incomplete sequences of which {} unexpired", k, pc, model.len(), unexpired));
            return;
        }
    }
    if !model.is_empty() {
        w.stat("probe.c09.incomplete_stays_pending");
    }
    if seen_seqs.len() > 1 {
        w.stat("probe.c09.interleaved_sequences");
    }
    if seen_seqs.len() >= 64 {
        w.stat("probe.c09.crowd_of_sequences");
    }
    if seen_seqs.len() >= 1024 {
        w.stat("probe.c09.more_than_1024_sequences");
    }
}

async fn permutations(w: &Arc<World>, p: &Plan) {
    let s = &p.seqs[0];
    let (prefix, _data, frags) = pieces(s);
    let n = frags.len();
    let mut order: Vec<usize> = (0..n).collect();
    // Heap's algorithm, iterative
    let mut c = vec![0usize; n];
    let run = |order: &[usize], w: &Arc<World>| -> bool {
        let mut asm = FragmentAssembler::new();
        for (step, &fi) in order.iter().enumerate() {
            let id = (n - fi) as u64;
            let res = if fi == 0 {
                asm.start_fragment(s.id, id, if prefix.is_empty() { None } else { Some(prefix.clone()) }, frags[0].clone())
            } else {
                asm.add_fragment(s.id, id, frags[fi].clone())
            };
            let last = step + 1 == n;
            match (last, res) {
                (true, Some(bytes)) => classify(w, s, &bytes, &format!("arrival order {:?}", order.iter().map(|f| n - f).collect::<Vec<_>>())),
                (true, None) => {
                    w.violation("not-completed", format!("arrival order {:?}: nothing returned at the last fragment", order));
                    return false;
                }
                (false, Some(_)) => {
                    w.violation("premature-or-repeated", format!("arrival order {:?}: a result was returned at step {}", order, step));
                    return false;
                }
                (false, None) => {}
            }
        }
        if asm.pending_count() != 0 {
            w.violation("pending-count", "a completed sequence is still pending".to_string());
            return false;
        }
        w.stat("c09.orders_enumerated");
        true
    };
    if !run(&order, w) {
        return;
    }
    let mut i = 0;
    while i < n {
        if c[i] < i {
            if i % 2 == 0 {
                order.swap(0, i);
            } else {
                order.swap(c[i], i);
            }
            if !run(&order, w) {
                return;
            }
            c[i] += 1;
            i = 0;
        } else {
            c[i] = 0;
            i += 1;
        }
    }
    w.ev(format!("all {} orders of {} fragments", (1..=n).product::<usize>(), n));
}
