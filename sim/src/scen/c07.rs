//! C07 — each send operation emits exactly one well-formed frame with the right content.

use crate::conv::{from_val, pid_val, ref_val, to_pid, to_ref};
use crate::core::{Rng, Tape, World, execute};
use crate::net::{Chunking, EndCfg};
use crate::nodeenv::{COOKIE, OTHER_ADDR, OTHER_NAME, PEER_NAME, SUT_NAME, install_conforming_peer, install_conforming_peer_at, start_node};
use crate::peer::{FLAG_DIST_HDR_ATOM_CACHE, NetCfg, OTP_FLAGS_BASE, ServerConn};
use crate::runner::{Info, RunOutput, Scenario, Tier, finish};
use crate::wire::{self, RecvCache, Val};
use edp_client::{Connection, ConnectionConfig, DistributionFlags};
use erltf::OwnedTerm;
use erltf::types::Atom;
use serde::{Deserialize, Serialize};
use serde_json::Value;
use std::sync::{Arc, Mutex};
use std::time::Duration;
use tokio::io::AsyncReadExt;

#[derive(Clone, Debug, Serialize, Deserialize, Default)]
struct Op {
    /// send | send_name | link | unlink | monitor | demonitor | rpc
    kind: String,
    #[serde(default)]
    seed: u64,
    #[serde(default)]
    size: u32,
    #[serde(default)]
    pause_ms: u32,
}

#[derive(Clone, Debug, Serialize, Deserialize, Default)]
struct Plan {
    /// "conn" (one task on a bare Connection) | "node" (several tasks through one Node)
    kind: String,
    #[serde(default)]
    header_mode: bool,
    /// conn kind: which side offers DIST_HDR_ATOM_CACHE (header_mode = both)
    #[serde(default)]
    local_hdr: bool,
    #[serde(default)]
    peer_hdr: bool,
    /// conn kind: "" | nok | bad_ack | silence : the handshake fails and then operations are attempted
    #[serde(default)]
    handshake_fail: String,
    #[serde(default)]
    client: EndCfg,
    #[serde(default)]
    server: EndCfg,
    #[serde(default)]
    cap: u32,
    #[serde(default)]
    tasks: Vec<Vec<Op>>,
    /// "" | write_error | peer_close | peer_stops_reading
    #[serde(default)]
    fault: String,
    #[serde(default)]
    fault_at: u64,
    #[serde(default)]
    salt: u64,
    /// node kind: the node is connected to a second, well-behaved node as well, and about a third of the
    /// operations name processes there; each node must read exactly the frames of the operations meant for it
    #[serde(default)]
    other_node: bool,
}

pub struct C07;

fn gen_op(r: &mut Rng, node_kind: bool) -> Op {
    let kinds: &[&str] = if node_kind { &["send", "send", "send", "link", "unlink", "monitor", "demonitor", "rpc", "bad_send"] } else { &["send", "send", "send_name", "send_name", "link", "unlink", "monitor", "demonitor", "bad_send"] };
    Op { kind: (*r.pick(kinds)).to_string(), seed: r.next_u64(), size: *r.pick(&[0u32, 1, 4, 12, 40]), pause_ms: *r.pick(&[0u32, 0, 0, 1, 7]) }
}

impl Scenario for C07 {
    fn id(&self) -> &'static str {
        "C07"
    }

    fn runs(&self, tier: Tier) -> u64 {
        match tier {
            Tier::Quick => 150_000,
            Tier::Thorough => 8_000_000,
        }
    }

    fn gen_plan(&self, r: &mut Rng, _tier: Tier, _index: u64) -> Value {
        let node_kind = r.chance(1, 2);
        let faults = r.chance(1, 3);
        let end = |r: &mut Rng| EndCfg {
            chunking: *r.pick(&[Chunking::Whole, Chunking::Random, Chunking::Byte]),
            spurious_16: *r.pick(&[0, 0, 3]),
            stall_16: *r.pick(&[0, 4, 10]),
            short_writes: r.chance(2, 3),
            latency_ms: *r.pick(&[0, 1, 5]),
            max_delay_ms: *r.pick(&[0, 1, 5, 20]),
        };
        let n_tasks = if node_kind { r.range(1, 6) as usize } else { 1 };
        let tasks: Vec<Vec<Op>> = (0..n_tasks).map(|_| (0..r.range(1, 8)).map(|_| gen_op(r, node_kind)).collect()).collect();
        let (local_hdr, peer_hdr) = if node_kind { (false, false) } else { (r.chance(1, 2), r.chance(1, 2)) };
        let handshake_fail = if !node_kind && r.chance(1, 8) { (*r.pick(&["nok", "bad_ack", "silence"])).to_string() } else { String::new() };
        let mut tasks = tasks;
        let big = !faults && handshake_fail.is_empty() && r.chance(1, 60);
        if big {
            // one message of several megabytes with more traffic of the same caller behind it (calm link)
            let j = r.below(tasks[0].len() as u64) as usize;
            tasks[0][j] = Op { kind: "send".to_string(), seed: r.next_u64(), size: BIG, pause_ms: 0 };
            tasks[0].insert(j + 1, Op { kind: "send".to_string(), seed: r.next_u64(), size: 1, pause_ms: 0 });
        }
        let p = Plan {
            kind: if node_kind { "node" } else { "conn" }.to_string(),
            header_mode: local_hdr && peer_hdr,
            local_hdr,
            peer_hdr,
            handshake_fail,
            client: if big { EndCfg { short_writes: r.chance(1, 2), ..Default::default() } } else { end(r) },
            server: if big { EndCfg::default() } else { end(r) },
            cap: if big { 0 } else { *r.pick(&[0u32, 0, 600, 4096]) },
            tasks,
            fault: if faults { (*r.pick(if node_kind { &["write_error", "peer_close"][..] } else { &["write_error", "peer_close", "peer_stalls"][..] })).to_string() } else { String::new() },
            fault_at: r.below(1500),
            salt: r.next_u64(),
            other_node: node_kind && r.chance(1, 3),
        };
        serde_json::to_value(p).unwrap()
    }

    fn run(&self, plan: &Value, tape: Tape, keep: bool) -> RunOutput {
        let p: Plan = match serde_json::from_value(plan.clone()) {
            Ok(p) => p,
            Err(_) => return RunOutput::default(),
        };
        if p.tasks.is_empty() || p.tasks.len() > 12 || (p.cap > 0 && p.cap < 512) {
            return RunOutput::default();
        }
        if p.tasks.iter().flatten().any(|o| o.size == BIG) && (p.cap != 0 || !p.fault.is_empty() || p.client.chunking != Chunking::Whole || p.server.chunking != Chunking::Whole || p.client.latency_ms > 0 || p.server.latency_ms > 0) {
            return RunOutput::default();
        }
        let world = World::new(tape, keep, p.salt);
        let nontrivial = p.tasks.len() > 1 || p.client.short_writes || p.client.stall_16 > 0;
        let ex = execute(&world, 6 * 3_600_000, |w| async move { scenario(&w, &p).await });
        finish(&world, &ex, nontrivial)
    }

    fn info(&self) -> Info {
        Info {
            rule: "one run = either one task issuing 1..8 send-side operations (send, send_to_name, link, unlink, monitor, demonitor with seeded arguments incl. 64-bit unlink ids and payloads from the simulator's term space) on a bare Connection in pass-through or distribution-header mode, or 1..6 tasks issuing them (plus rpc) through one Node; the client's writes are short and stall between the partial writes of a frame so other tasks run while a frame is half written; optional write error at a byte offset or peer close. The peer's independent reader parses the byte stream. Non-trivial = several tasks or perturbed writes; distinct = distinct (transfer sequence, event log).",
            components_real: &["edp_client::Connection (send_message, send_to_name, link, unlink, monitor, demonitor, send_control_message)", "edp_client::control::ControlMessage::to_term", "erltf encoder incl. encode_with_dist_header(_multi)", "edp_node::Node (send, link, unlink, monitor, demonitor, rpc_call, connection table + mutex)"],
            components_stubbed: &["TCP (SimNet)", "EPMD (stub)", "remote node (handshake acceptor + independent frame, header and term reader)"],
            assumptions: &["payloads come from the sub-space with an unambiguous denotation (DESIGN 2.4); node-local identifier forms are not generated"],
            fault_prefixes: &["fault.", "net."],
            expected_probes: &["probe.c07.frame_checked_passthrough", "probe.c07.frame_checked_header", "probe.c07.interleaved_tasks", "probe.c07.op_failed_after_fault", "probe.c07.unlink_id_above_2_63", "probe.c07.asymmetric_flag_offer", "probe.c07.node_local_identifier", "probe.c07.same_process_other_form", "probe.c07.same_pair_again", "probe.c07.both_identifiers_node_local", "probe.c07.message_of_megabytes", "probe.c07.second_connect_refused", "probe.c07.second_connection_by_the_same_task", "probe.c07.every_atom_longer_than_255_bytes", "probe.c07.payloads_equal_as_terms_differ_on_the_wire", "probe.c07.local_side_is_a_live_process", "probe.c07.unencodable_rejected_cleanly", "probe.c07.nothing_written_after_failed_handshake", "probe.c07.operation_after_the_peer_came_back"],
        }
    }
}

/// What the independent reader must see for one operation.
#[derive(Clone, Debug)]
struct Want {
    task: usize,
    idx: usize,
    kind: String,
    /// control tuple with `None` for fields the caller cannot know in advance
    control: Vec<Option<Val>>,
    payload: Option<Val>,
    ok: bool,
    err: String,
    /// the operation cannot be encoded and must fail without writing anything
    expect_err: bool,
}

fn peer_pid_for(task: usize, idx: usize, seed: u64) -> Val {
    Val::Pid { node: PEER_NAME.to_string(), id: (task * 1000 + idx) as u32, serial: (seed % 7) as u32, creation: (seed >> 40) as u32 }
}

fn local_pid_for(task: usize) -> Val {
    Val::Pid { node: SUT_NAME.to_string(), id: 50_000 + task as u32, serial: 3, creation: 3 }
}

fn tagged_payload(task: usize, idx: usize, op: &Op) -> Val {
    let mut r = Rng::new(op.seed);
    if op.size == BIG {
        // several megabytes in one message
        let n = (4 << 20) + (op.seed % (2 << 20)) as usize;
        return Val::tuple(vec![Val::int(task as i128), Val::int(idx as i128), Val::Bin(r.bytes(n))]);
    }
    Val::tuple(vec![Val::int(task as i128), Val::int(idx as i128), wire::gen_val(&mut r, op.size)])
}

/// Op::size value that asks for a payload of 4..6 MiB.
const BIG: u32 = 999;

/// A payload no frame can carry: an atom longer than 65535 bytes, or (header mode) more
/// distinct atoms than a header has positions.
fn unencodable_payload(seed: u64, header_mode: bool) -> Val {
    if header_mode && seed % 2 == 0 {
        Val::list((0..300).map(|i| Val::Atom(format!("too_many_{}", i))).collect())
    } else {
        Val::tuple(vec![Val::atom("big"), Val::Atom("x".repeat(70_000))])
    }
}

fn unlink_id(seed: u64) -> u64 {
    match seed % 6 {
        0 => 0,
        1 => u64::MAX,
        2 => 1 << 63,
        3 => (1 << 63) - 1,
        4 => u64::from(u32::MAX) + 1,
        _ => seed,
    }
}

async fn collector(mut conn: ServerConn, sink: Arc<Mutex<Vec<u8>>>, p: Arc<Plan>, w: Arc<World>, ctl: Arc<Mutex<Option<crate::net::PipeCtl>>>, stop: Arc<tokio::sync::Notify>) {
    *ctl.lock().unwrap() = Some(conn.c2s.clone());
    if p.fault == "write_error" {
        conn.c2s.fail_writes_after(conn.c2s.total_written() + p.fault_at, std::io::ErrorKind::BrokenPipe);
    }
    let mut buf = vec![0u8; 4096];
    let mut total = 0u64;
    let mut stalled = false;
    loop {
        if p.fault == "peer_stalls" && total >= p.fault_at && !stalled {
            // the peer is slow: it stops draining its socket for longer than the client's I/O timeout
            stalled = true;
            w.stat("fault.peer_stalls_reading");
            w.ev(format!("peer: stops reading for 30 s after {} bytes", total));
            tokio::time::sleep(Duration::from_secs(30)).await;
        }
        if p.fault == "peer_close" && total >= p.fault_at {
            w.stat("fault.peer_close");
            w.ev(format!("peer: close after {} bytes", total));
            break;
        }
        let r = tokio::select! {
            biased;
            r = conn.read.read(&mut buf) => r,
            _ = stop.notified() => {
                // the peer goes away in an orderly fashion (everything sent so far has been read)
                w.ev(format!("peer: closes the stream after {} bytes", total));
                break;
            }
        };
        match r {
            Ok(0) | Err(_) => break,
            Ok(n) => {
                total += n as u64;
                sink.lock().unwrap().extend_from_slice(&buf[..n]);
            }
        }
    }
    // ticks are not needed: runs are short
    drop(conn);
}

async fn scenario(w: &Arc<World>, p: &Plan) {
    let p = Arc::new(p.clone());
    let sink: Arc<Mutex<Vec<u8>>> = Arc::new(Mutex::new(Vec::new()));
    let wants: Arc<Mutex<Vec<Want>>> = Arc::new(Mutex::new(Vec::new()));
    let ctl: Arc<Mutex<Option<crate::net::PipeCtl>>> = Arc::new(Mutex::new(None));
    let peer_flags = OTP_FLAGS_BASE | if p.peer_hdr { FLAG_DIST_HDR_ATOM_CACHE } else { 0 };
    if p.kind == "conn" && p.header_mode != (p.local_hdr && p.peer_hdr) {
        return;
    }
    if p.kind == "conn" && !p.handshake_fail.is_empty() {
        failed_handshake(w, &p).await;
        return;
    }
    // a second connection (made after the first one's operations) gets a collector of its own, without faults
    let sink_b: Arc<Mutex<Vec<u8>>> = Arc::new(Mutex::new(Vec::new()));
    let stop_first = Arc::new(tokio::sync::Notify::new());
    let ctl_b: Arc<Mutex<Option<crate::net::PipeCtl>>> = Arc::new(Mutex::new(None));
    let mut p_calm = (*p).clone();
    p_calm.fault = String::new();
    let p_calm = Arc::new(p_calm);
    // the second node's collector and what it must see
    let sink_o: Arc<Mutex<Vec<u8>>> = Arc::new(Mutex::new(Vec::new()));
    let ctl_o: Arc<Mutex<Option<crate::net::PipeCtl>>> = Arc::new(Mutex::new(None));
    let wants_o: Arc<Mutex<Vec<Want>>> = Arc::new(Mutex::new(Vec::new()));
    {
        let (sink2, p2, ctl2) = (sink.clone(), p.clone(), ctl.clone());
        let (sink_b2, p_b, ctl_b2) = (sink_b.clone(), p_calm.clone(), ctl_b.clone());
        let stop2 = stop_first.clone();
        install_conforming_peer(
            w,
            NetCfg { client: p.client.clone(), server: p.server.clone(), cap: p.cap as usize },
            peer_flags,
            move |w, conn, _seen| {
                if conn.conn_index > 0 {
                    Box::pin(collector(conn, sink_b2.clone(), p_b.clone(), w, ctl_b2.clone(), Arc::new(tokio::sync::Notify::new())))
                } else {
                    Box::pin(collector(conn, sink2.clone(), p2.clone(), w, ctl2.clone(), stop2.clone()))
                }
            },
        );
    }
    if p.tasks.iter().flatten().any(|o| o.size == BIG) {
        w.stat("probe.c07.message_of_megabytes");
    }
    if p.kind == "node" {
        let node = match start_node(w, 3).await {
            Ok(n) => Arc::new(n),
            Err(e) => {
                w.violation("HARNESS-setup", e);
                return;
            }
        };
        if let Err(e) = node.connect(PEER_NAME).await {
            w.violation("HARNESS-setup", format!("connect failed: {}", e));
            return;
        }
        if p.other_node {
            let (sink_o2, p_o, ctl_o2) = (sink_o.clone(), p_calm.clone(), ctl_o.clone());
            install_conforming_peer_at(w, OTHER_ADDR, OTHER_NAME, NetCfg { client: p.client.clone(), server: p.server.clone(), cap: 0 }, peer_flags, move |w, conn, _seen| {
                Box::pin(collector(conn, sink_o2.clone(), p_o.clone(), w, ctl_o2.clone(), Arc::new(tokio::sync::Notify::new())))
            });
            if let Err(e) = node.connect(OTHER_NAME).await {
                w.violation("HARNESS-setup", format!("connect to the second node failed: {}", e));
                return;
            }
        }
        // in half of the runs the local side of every operation is a process this node really runs
        struct Idle;
        impl edp_node::Process for Idle {
            async fn handle_message(&mut self, _m: edp_node::Message) -> edp_node::Result<()> {
                Ok(())
            }
        }
        let mut spawned: Vec<Option<Val>> = Vec::new();
        for _ in 0..p.tasks.len() {
            spawned.push(if p.salt & 1 == 1 { node.spawn(Idle).await.ok().map(|pid| pid_val(&pid)) } else { None });
        }
        if p.salt & 1 == 1 {
            w.stat("probe.c07.local_side_is_a_live_process");
        }
        let mut handles = Vec::new();
        for (ti, ops) in p.tasks.iter().enumerate() {
            let (node, ops, wants, w) = (node.clone(), ops.clone(), wants.clone(), w.clone());
            let (wants_o, other_node) = (wants_o.clone(), p.other_node);
            let my_pid = spawned[ti].clone();
            handles.push(tokio::spawn(async move {
                let mut prev_to: Option<Val> = None;
                for (ix, op) in ops.iter().enumerate() {
                    if op.pause_ms > 0 {
                        tokio::time::sleep(Duration::from_millis(u64::from(op.pause_ms))).await;
                    }
                    let mut to = peer_pid_for(ti, ix, op.seed);
                    // a process on the second node: the frame belongs on that node's stream and on no other
                    let to_other = other_node && (op.seed >> 16) % 3 == 0;
                    if to_other {
                        if let Val::Pid { node, .. } = &mut to {
                            *node = OTHER_NAME.to_string();
                        }
                        w.stat("probe.c07.operation_for_the_second_node");
                    }
                    let rpc_target = if to_other { OTHER_NAME } else { PEER_NAME };
                    // the same remote process as in this task's previous operation (the same pair again)
                    if let Some(prev) = prev_to.clone().filter(|_| !other_node && (op.seed >> 8) % 4 == 1) {
                        to = prev;
                        w.stat("probe.c07.same_pair_again");
                    }
                    prev_to = Some(to.clone());
                    let from = my_pid.clone().unwrap_or_else(|| local_pid_for(ti));
                    let (to_e, from_e) = (to_pid(&to).unwrap(), to_pid(&from).unwrap());
                    let mut want = Want { task: ti, idx: ix, kind: op.kind.clone(), control: Vec::new(), payload: None, ok: false, err: String::new(), expect_err: false };
                    let res: Result<(), String> = match op.kind.as_str() {
                        "link" => {
                            want.control = vec![Some(Val::int(1)), Some(from.clone()), Some(to.clone())];
                            node.link(&from_e, &to_e).await.map_err(|e| e.to_string())
                        }
                        "unlink" => {
                            want.control = vec![Some(Val::int(35)), None, Some(from.clone()), Some(to.clone())];
                            node.unlink(&from_e, &to_e).await.map_err(|e| e.to_string())
                        }
                        "monitor" => match node.monitor(&from_e, &to_e).await {
                            Ok(r) => {
                                want.control = vec![Some(Val::int(19)), Some(from.clone()), Some(to.clone()), Some(ref_val(&r))];
                                Ok(())
                            }
                            Err(e) => Err(e.to_string()),
                        },
                        "demonitor" => {
                            let mut rr = Rng::new(op.seed);
                            let rf = wire::gen_ref(&mut rr, Some(SUT_NAME));
                            want.control = vec![Some(Val::int(20)), Some(from.clone()), Some(to.clone()), Some(rf.clone())];
                            node.demonitor(&from_e, &to_e, &to_ref(&rf).unwrap()).await.map_err(|e| e.to_string())
                        }
                        "bad_send" => {
                            want.expect_err = true;
                            want.control = vec![Some(Val::int(2)), Some(Val::atom("")), Some(to.clone())];
                            node.send(&to_e, from_val(&unencodable_payload(op.seed, false))).await.map_err(|e| e.to_string())
                        }
                        "rpc" => {
                            // {6, ReplyPid, '', rex} + {ReplyPid, {call, m, f, [Task, Idx], user}}
                            want.control = vec![Some(Val::int(6)), None, Some(Val::atom("")), Some(Val::atom("rex"))];
                            want.payload = Some(Val::tuple(vec![
                                Val::atom("$reply_pid"),
                                Val::tuple(vec![Val::atom("call"), Val::atom("m"), Val::atom("f"), Val::list(vec![Val::int(ti as i128), Val::int(ix as i128)]), Val::atom("user")]),
                            ]));
                            match node.rpc_call_raw_with_timeout(rpc_target, "m", "f", vec![OwnedTerm::Integer(ti as i64), OwnedTerm::Integer(ix as i64)], Duration::from_millis(30)).await {
                                Err(edp_node::Error::RpcTimeout(_)) | Ok(_) => Ok(()),
                                Err(e) => Err(e.to_string()),
                            }
                        }
                        _ => {
                            let pl = tagged_payload(ti, ix, op);
                            want.control = vec![Some(Val::int(2)), Some(Val::atom("")), Some(to.clone())];
                            want.payload = Some(pl.clone());
                            node.send(&to_e, from_val(&pl)).await.map_err(|e| e.to_string())
                        }
                    };
                    want.ok = res.is_ok();
                    want.err = res.err().unwrap_or_default();
                    w.ev(format!("task {} op {} {} -> {}", ti, ix, op.kind, if want.ok { "Ok" } else { &want.err }));
                    w.sig(0x0b ^ (ti as u64) << 8 ^ ix as u64);
                    if to_other { wants_o.lock().unwrap().push(want) } else { wants.lock().unwrap().push(want) }
                }
            }));
        }
        for h in handles {
            if h.await.is_err() {
                w.violation("panic", "a sender task panicked".to_string());
            }
        }
        if p.fault.is_empty() && p.salt & 0x30 == 0x30 {
            // the peer goes away, the node notices, the application connects again: an operation issued
            // then is read by the peer on the new stream
            drain(&ctl).await;
            stop_first.notify_one();
            let mut gone = false;
            for _ in 0..15_000 {
                if !node.connections().contains_key(PEER_NAME) {
                    gone = true;
                    break;
                }
                tokio::time::sleep(Duration::from_millis(1)).await;
            }
            if gone && node.connect(PEER_NAME).await.is_ok() {
                let op = Op { kind: "send".into(), seed: p.salt ^ 0xc, size: 4, pause_ms: 0 };
                let to = peer_pid_for(0, 0, p.tasks[0].first().map(|o| o.seed).unwrap_or(op.seed));
                let pl = tagged_payload(9, 0, &op);
                let res = node.send(&to_pid(&to).unwrap(), from_val(&pl)).await;
                let want = Want { task: 9, idx: 0, kind: "send".into(), control: vec![Some(Val::int(2)), Some(Val::atom("")), Some(to)], payload: Some(pl), ok: res.is_ok(), err: res.err().map(|e| e.to_string()).unwrap_or_default(), expect_err: false };
                drain(&ctl_b).await;
                tokio::time::sleep(Duration::from_millis(200)).await;
                w.stat("probe.c07.operation_after_the_peer_came_back");
                evaluate(w, &p_calm, &sink_b.lock().unwrap(), &[want]);
            } else {
                w.stat("c07.peer_did_not_come_back");
            }
        }
    } else {
        let flags = DistributionFlags::default().as_u64() | if p.local_hdr { FLAG_DIST_HDR_ATOM_CACHE } else { 0 };
        if p.local_hdr != p.peer_hdr {
            w.stat("probe.c07.asymmetric_flag_offer");
        }
        install_epmd_only(w);
        let io_timeout = if p.fault == "peer_stalls" { 10 } else { 600 };
        // "no timeout" configurations: the largest durations there are (fault-free runs: nothing stalls for ever there)
        let io = if p.fault.is_empty() && (p.salt >> 40) % 6 == 0 {
            w.stat("probe.c07.unbounded_io_timeout");
            if (p.salt >> 44) % 2 == 0 { Duration::MAX } else { Duration::from_secs(u64::MAX) }
        } else {
            Duration::from_secs(io_timeout)
        };
        let cfg = ConnectionConfig::new(SUT_NAME, PEER_NAME, COOKIE).with_flags(DistributionFlags::new(flags)).with_timeout(io);
        let mut conn = Connection::new(cfg);
        // operations before the handshake completes fail without writing
        let pre = conn.link(&to_pid(&local_pid_for(0)).unwrap(), &to_pid(&peer_pid_for(0, 0, 0)).unwrap()).await;
        if pre.is_ok() {
            w.violation("send-before-connected", "link() on a never-connected Connection returned Ok".to_string());
        }
        if let Err(e) = conn.connect().await {
            w.violation("HARNESS-setup", format!("connect failed: {}", e));
            return;
        }
        let want_mode = conn.negotiated_flags().map(|f| f.as_u64() & FLAG_DIST_HDR_ATOM_CACHE != 0).unwrap_or(false);
        if want_mode != p.header_mode {
            w.violation("HARNESS-setup", "negotiated mode differs from the plan".to_string());
            return;
        }
        let mut prev_to: Option<Val> = None;
        for (ix, op) in p.tasks[0].iter().enumerate() {
            if p.salt & 6 == 6 && ix == (p.salt >> 8) as usize % p.tasks[0].len() {
                // connect() on the connected object: refused, and the established connection is as it was
                if conn.connect().await.is_ok() {
                    w.violation("reconnect-without-close", "connect() on a connected Connection returned Ok".to_string());
                }
                w.stat("probe.c07.second_connect_refused");
            }
            if op.pause_ms > 0 {
                tokio::time::sleep(Duration::from_millis(u64::from(op.pause_ms))).await;
            }
            let mut rr = Rng::new(op.seed ^ 0x77);
            // identifiers in plain and in node-local form (the opaque bytes must go out verbatim)
            let mut to = peer_pid_for(0, ix, op.seed);
            if op.seed % 4 == 0 {
                to = Val::Local(rr.bytes(8), Box::new(to));
                w.stat("probe.c07.node_local_identifier");
            }
            // the same process as in the previous operation, named in another form: plain after
            // node-local, node-local after plain, or node-local with other opaque bytes
            if let Some(prev) = prev_to.clone().filter(|_| (op.seed >> 8) % 5 == 1) {
                to = match prev {
                    Val::Local(_, inner) if (op.seed >> 12) % 2 == 0 => *inner,
                    Val::Local(_, inner) => Val::Local(rr.bytes(8), inner),
                    plain => Val::Local(rr.bytes(8), Box::new(plain)),
                };
                w.stat("probe.c07.same_process_other_form");
            }
            // both identifiers on nodes whose names are atoms of more than 255 bytes (then a control-only
            // operation has no short atom at all)
            let long_names = (op.seed >> 24) % 6 == 0;
            if long_names {
                if let Val::Pid { node, .. } = &mut to {
                    *node = format!("peer@{}", "п".repeat(140));
                    w.stat("probe.c07.every_atom_longer_than_255_bytes");
                }
            }
            prev_to = Some(to.clone());
            // the local side in node-local form as well: an operation none of whose identifiers is plain
            let from = if long_names {
                Val::Pid { node: format!("sut@{}", "h".repeat(300)), id: 50_000, serial: 3, creation: 3 }
            } else if (op.seed >> 20) % 3 == 0 {
                Val::Local(rr.bytes(8), Box::new(local_pid_for(0)))
            } else {
                local_pid_for(0)
            };
            if matches!(from, Val::Local(..)) && matches!(to, Val::Local(..)) {
                w.stat("probe.c07.both_identifiers_node_local");
            }
            let (to_e, from_e) = (to_pid(&to).unwrap(), to_pid(&from).unwrap());
            let mut want = Want { task: 0, idx: ix, kind: op.kind.clone(), control: Vec::new(), payload: None, ok: false, err: String::new(), expect_err: false };
            let res = match op.kind.as_str() {
                "link" => {
                    want.control = vec![Some(Val::int(1)), Some(from.clone()), Some(to.clone())];
                    conn.link(&from_e, &to_e).await
                }
                "unlink" => {
                    let id = unlink_id(op.seed);
                    if id >= 1 << 63 {
                        w.stat("probe.c07.unlink_id_above_2_63");
                    }
                    want.control = vec![Some(Val::int(35)), Some(Val::int(i128::from(id))), Some(from.clone()), Some(to.clone())];
                    conn.unlink(&from_e, &to_e, id).await
                }
                "monitor" | "demonitor" => {
                    let mut rf = wire::gen_ref(&mut rr, None);
                    if long_names {
                        if let Val::Ref { node, .. } = &mut rf {
                            *node = format!("sut@{}", "h".repeat(300));
                        }
                    } else if op.seed % 3 == 0 {
                        rf = Val::Local(rr.bytes(8), Box::new(rf));
                    }
                    let tag = if op.kind == "monitor" { 19 } else { 20 };
                    want.control = vec![Some(Val::int(tag)), Some(from.clone()), Some(to.clone()), Some(rf.clone())];
                    if op.kind == "monitor" { conn.monitor(&from_e, &to_e, &to_ref(&rf).unwrap()).await } else { conn.demonitor(&from_e, &to_e, &to_ref(&rf).unwrap()).await }
                }
                "bad_send" => {
                    want.expect_err = true;
                    want.control = vec![Some(Val::int(2)), Some(Val::atom("")), Some(to.clone())];
                    conn.send_message(from_e.clone(), to_e.clone(), from_val(&unencodable_payload(op.seed, p.header_mode))).await
                }
                "send_name" => {
                    let name = wire::gen_atom(&mut rr);
                    let pl = tagged_payload(0, ix, op);
                    want.control = vec![Some(Val::int(6)), Some(from.clone()), Some(Val::atom("")), Some(Val::Atom(name.clone()))];
                    want.payload = Some(pl.clone());
                    conn.send_to_name(from_e.clone(), Atom::new(&name), from_val(&pl)).await
                }
                _ if (op.seed >> 28) % 8 == 3 => {
                    // two sends in a row whose payloads compare equal as terms and differ on the wire: the sign
                    // of a zero, the form of an identifier
                    let ident = peer_pid_for(0, 77, op.seed);
                    let a = Val::tuple(vec![Val::int(0), Val::int(ix as i128), Val::Float(0.0f64.to_bits()), ident.clone()]);
                    let b = Val::tuple(vec![Val::int(0), Val::int(ix as i128), Val::Float((-0.0f64).to_bits()), Val::Local(rr.bytes(8), Box::new(ident))]);
                    let first = conn.send_message(from_e.clone(), to_e.clone(), from_val(&a)).await;
                    wants.lock().unwrap().push(Want { task: 0, idx: ix, kind: "send".into(), control: vec![Some(Val::int(2)), Some(Val::atom("")), Some(to.clone())], payload: Some(a), ok: first.is_ok(), err: first.err().map(|e| e.to_string()).unwrap_or_default(), expect_err: false });
                    w.stat("probe.c07.payloads_equal_as_terms_differ_on_the_wire");
                    want.control = vec![Some(Val::int(2)), Some(Val::atom("")), Some(to.clone())];
                    want.payload = Some(b.clone());
                    conn.send_message(from_e.clone(), to_e.clone(), from_val(&b)).await
                }
                _ => {
                    let pl = tagged_payload(0, ix, op);
                    want.control = vec![Some(Val::int(2)), Some(Val::atom("")), Some(to.clone())];
                    want.payload = Some(pl.clone());
                    conn.send_message(from_e.clone(), to_e.clone(), from_val(&pl)).await
                }
            };
            want.ok = res.is_ok();
            want.err = res.err().map(|e| e.to_string()).unwrap_or_default();
            w.ev(format!("op {} {} -> {}", ix, op.kind, if want.ok { "Ok" } else { &want.err }));
            wants.lock().unwrap().push(want);
        }
        drain(&ctl).await;
        drop(conn);
        if p.salt & 0x30 == 0x30 {
            // a fresh Connection made by the same task afterwards carries its own frames and nothing of the
            // first one's, whatever happened there (failed writes included)
            let cfg = ConnectionConfig::new(SUT_NAME, PEER_NAME, COOKIE).with_flags(DistributionFlags::new(flags)).with_timeout(Duration::from_secs(600));
            let mut conn_b = Connection::new(cfg);
            if conn_b.connect().await.is_ok() {
                let op = Op { kind: "send".into(), seed: p.salt ^ 0xb, size: 4, pause_ms: 0 };
                let to = peer_pid_for(9, 0, op.seed);
                let from = local_pid_for(9);
                let pl = tagged_payload(9, 0, &op);
                let res = conn_b.send_message(to_pid(&from).unwrap(), to_pid(&to).unwrap(), from_val(&pl)).await;
                let want = Want { task: 9, idx: 0, kind: "send".into(), control: vec![Some(Val::int(2)), Some(Val::atom("")), Some(to)], payload: Some(pl), ok: res.is_ok(), err: res.err().map(|e| e.to_string()).unwrap_or_default(), expect_err: false };
                drain(&ctl_b).await;
                tokio::time::sleep(Duration::from_millis(200)).await;
                w.stat("probe.c07.second_connection_by_the_same_task");
                evaluate(w, &p_calm, &sink_b.lock().unwrap(), &[want]);
            }
        }
    }
    drain(&ctl).await;
    drain(&ctl_o).await;
    tokio::time::sleep(Duration::from_millis(500)).await;
    evaluate(w, &p, &sink.lock().unwrap(), &wants.lock().unwrap());
    if p.kind == "node" && p.other_node {
        evaluate(w, &p_calm, &sink_o.lock().unwrap(), &wants_o.lock().unwrap());
    }
    let _ = pid_val;
}

/// Waits until the peer's collector has consumed everything the client wrote.
async fn drain(ctl: &Arc<Mutex<Option<crate::net::PipeCtl>>>) {
    let Some(c) = ctl.lock().unwrap().clone() else { return };
    for _ in 0..200_000 {
        if c.total_read() == c.total_written() || c.reader_gone() {
            break;
        }
        tokio::time::sleep(Duration::from_millis(10)).await;
    }
}

/// The handshake fails part-way (refusal, wrong digest, silence); afterwards every send-side
/// operation must fail and put nothing on the wire.
async fn failed_handshake(w: &Arc<World>, p: &Arc<Plan>) {
    use crate::peer::{install_peer, read_frame2};
    use tokio::io::AsyncWriteExt;
    install_epmd_only(w);
    let ctl: Arc<Mutex<Option<crate::net::PipeCtl>>> = Arc::new(Mutex::new(None));
    let (ctl2, kind) = (ctl.clone(), p.handshake_fail.clone());
    install_peer(
        w,
        crate::nodeenv::PEER_ADDR,
        NetCfg { client: p.client.clone(), server: p.server.clone(), cap: p.cap as usize },
        |_| 0,
        move |_w: &Arc<World>, mut conn: ServerConn| {
            *ctl2.lock().unwrap() = Some(conn.c2s.clone());
            let kind = kind.clone();
            tokio::spawn(async move {
                let Ok(_name) = read_frame2(&mut conn.read).await else { return };
                match kind.as_str() {
                    "nok" => {
                        let _ = conn.write.write_all(&wire::frame2(&wire::hs_status("nok"))).await;
                    }
                    "bad_ack" => {
                        let _ = conn.write.write_all(&wire::frame2(&wire::hs_status("ok"))).await;
                        let _ = conn.write.write_all(&wire::frame2(&wire::hs_challenge(OTP_FLAGS_BASE, 77, 1, PEER_NAME))).await;
                        let _ = read_frame2(&mut conn.read).await;
                        let _ = read_frame2(&mut conn.read).await;
                        let _ = conn.write.write_all(&wire::frame2(&wire::hs_ack(&[9u8; 16]))).await;
                    }
                    _ => {}
                }
                // keep the socket open and keep reading: whatever the client writes now is counted
                let mut sink = [0u8; 256];
                while let Ok(n) = conn.read.read(&mut sink).await {
                    if n == 0 {
                        break;
                    }
                }
            });
        },
    );
    let flags = DistributionFlags::default().as_u64() | if p.local_hdr { FLAG_DIST_HDR_ATOM_CACHE } else { 0 };
    let cfg = ConnectionConfig::new(SUT_NAME, PEER_NAME, COOKIE).with_flags(DistributionFlags::new(flags)).with_timeout(Duration::from_secs(5));
    let mut conn = Connection::new(cfg);
    if conn.connect().await.is_ok() {
        w.violation("HARNESS-setup", "the handshake was meant to fail".to_string());
        return;
    }
    w.stat(&format!("fault.handshake_{}", p.handshake_fail));
    let Some(c) = ctl.lock().unwrap().clone() else { return };
    tokio::time::sleep(Duration::from_millis(2000)).await;
    let before = c.total_written();
    let from = to_pid(&local_pid_for(0)).unwrap();
    let to = to_pid(&peer_pid_for(0, 0, 1)).unwrap();
    let rf = to_ref(&wire::gen_ref(&mut Rng::new(p.salt), None)).unwrap();
    let results = [
        ("send_message", conn.send_message(from.clone(), to.clone(), OwnedTerm::Atom(Atom::new("x"))).await.is_ok()),
        ("send_to_name", conn.send_to_name(from.clone(), Atom::new("rex"), OwnedTerm::Nil).await.is_ok()),
        ("link", conn.link(&from, &to).await.is_ok()),
        ("unlink", conn.unlink(&from, &to, 7).await.is_ok()),
        ("monitor", conn.monitor(&from, &to, &rf).await.is_ok()),
        ("demonitor", conn.demonitor(&from, &to, &rf).await.is_ok()),
    ];
    for (name, ok) in results {
        if ok {
            w.violation("send-before-connected", format!("{}() returned Ok after a handshake that failed ({})", name, p.handshake_fail));
        }
    }
    tokio::time::sleep(Duration::from_millis(2000)).await;
    if c.total_written() != before {
        w.violation("send-before-connected", format!("{} bytes were written by send-side operations after a handshake that failed ({})", c.total_written() - before, p.handshake_fail));
    } else {
        w.stat("probe.c07.nothing_written_after_failed_handshake");
    }
}

fn install_epmd_only(w: &Arc<World>) {
    crate::peer::install_epmd(w, 3, "peer", 5555, true);
}

fn matches_want(want: &Want, msg: &wire::DistMsg) -> Result<(), String> {
    let Some(c) = msg.control.as_tuple() else { return Err("control is not a tuple".into()) };
    if c.len() != want.control.len() {
        return Err(format!("control arity {} instead of {}", c.len(), want.control.len()));
    }
    for (i, (got, exp)) in c.iter().zip(want.control.iter()).enumerate() {
        if let Some(e) = exp {
            if got != e {
                return Err(format!("control field {} is {} instead of {}", i, got.short(), e.short()));
            }
        }
    }
    match (&want.payload, &msg.payload) {
        (None, None) => Ok(()),
        (Some(_), None) => Err("payload missing".into()),
        (None, Some(p)) => Err(format!("unexpected payload {}", p.short())),
        (Some(e), Some(g)) => {
            if want.kind == "rpc" {
                // {ReplyPid, Call}: ReplyPid must equal the control's From
                let gt = g.as_tuple().ok_or("rpc payload is not a tuple")?;
                let et = e.as_tuple().unwrap();
                if gt.len() != 2 || gt[1] != et[1] {
                    return Err(format!("rpc payload is {}", g.short()));
                }
                if gt[0] != c[1] {
                    return Err("rpc payload's reply pid differs from the control's sender".into());
                }
                Ok(())
            } else if g == e {
                Ok(())
            } else {
                Err(format!("payload is {} instead of {}", g.short(), e.short()))
            }
        }
    }
}

fn evaluate(w: &Arc<World>, p: &Plan, stream: &[u8], wants: &[Want]) {
    let (frames, leftover) = wire::split_frames4(stream);
    let faulted = !p.fault.is_empty();
    if leftover != 0 && !faulted {
        w.violation("partial-frame", format!("{} bytes at the end of the stream do not form a frame", leftover));
    }
    let mut cache = RecvCache::default();
    let mut parsed = Vec::new();
    for (i, f) in frames.iter().enumerate() {
        if f.is_empty() {
            continue;
        }
        match wire::parse_dist_frame(f, &mut cache) {
            Ok(m) => {
                let want_form = if p.header_mode { 68 } else { 112 };
                // a header-mode message without atoms may legitimately omit the header refs, but the marker must still be the negotiated one
                if m.form != want_form {
                    w.violation("wrong-framing-mode", format!("frame {} uses marker {} although the negotiated mode requires {}", i, m.form, want_form));
                }
                parsed.push(m);
            }
            Err(e) => {
                w.violation("unreadable-frame", format!("frame {} of {}: {} :: {}", i, frames.len(), e, wire::hex(f)));
                return;
            }
        }
    }
    let oks: Vec<&Want> = wants.iter().filter(|x| x.ok).collect();
    // attribute each frame to an operation: by (task, idx) carried in the frame
    let mut used = vec![false; parsed.len()];
    let mut last_pos_per_task: std::collections::BTreeMap<usize, usize> = Default::default();
    let mut sorted: Vec<&Want> = wants.iter().collect();
    sorted.sort_by_key(|x| (x.task, x.idx));
    for want in &sorted {
        // candidates: frames not yet used that match
        let mut found = None;
        let mut last_err = String::new();
        for (i, m) in parsed.iter().enumerate() {
            if used[i] {
                continue;
            }
            match matches_want(want, m) {
                Ok(()) => {
                    found = Some(i);
                    break;
                }
                Err(e) => last_err = e,
            }
        }
        if want.expect_err && want.ok {
            w.violation("unencodable-accepted", format!("task {} op {}: a payload that no frame can carry was sent", want.task, want.idx));
        }
        match (want.ok, found) {
            (true, Some(i)) => {
                used[i] = true;
                if let Some(prev) = last_pos_per_task.get(&want.task) {
                    if *prev > i {
                        w.violation("order", format!("task {}: the frame of operation {} precedes the frame of an earlier operation", want.task, want.idx));
                    }
                }
                last_pos_per_task.insert(want.task, i);
                w.stat(if parsed[i].form == 68 { "probe.c07.frame_checked_header" } else { "probe.c07.frame_checked_passthrough" });
            }
            (true, None) => {
                if !faulted {
                    w.violation("frame-missing-or-wrong", format!("task {} op {} ({}) returned Ok but no frame on the wire matches it; nearest mismatch: {}", want.task, want.idx, want.kind, last_err));
                }
            }
            (false, Some(i)) => {
                // a failed operation whose frame nevertheless arrived complete: allowed only under faults
                used[i] = true;
                if !faulted {
                    w.violation("failed-op-wrote", format!("task {} op {} ({}) returned Err({}) but its frame is on the wire", want.task, want.idx, want.kind, want.err));
                }
            }
            (false, None) if want.expect_err => {
                w.stat("probe.c07.unencodable_rejected_cleanly");
            }
            (false, None) => {
                if faulted {
                    w.stat("probe.c07.op_failed_after_fault");
                } else {
                    w.violation("op-failed", format!("task {} op {} ({}) failed without any fault: {}", want.task, want.idx, want.kind, want.err));
                }
            }
        }
    }
    let extra = used.iter().filter(|u| !**u).count();
    if extra > 0 {
        let i = used.iter().position(|u| !*u).unwrap();
        w.violation("extra-frame", format!("{} frame(s) on the wire belong to no operation; first: {} / {:?}", extra, parsed[i].control.short(), parsed[i].payload.as_ref().map(|v| v.short())));
    }
    if p.tasks.len() > 1 && oks.len() > 1 {
        // were frames of different tasks actually interleaved on the wire?
        let tasks_in_order: Vec<usize> = {
            let mut v = Vec::new();
            for (i, _) in parsed.iter().enumerate() {
                if let Some(wa) = sorted.iter().find(|wa| wa.ok && matches_want(wa, &parsed[i]).is_ok()) {
                    v.push(wa.task);
                }
            }
            v
        };
        if tasks_in_order.windows(2).any(|x| x[0] != x[1]) {
            w.stat("probe.c07.interleaved_tasks");
        }
    }
    // unlink ids issued by the node are distinct
    let mut ids = Vec::new();
    for m in &parsed {
        if let Some(c) = m.control.as_tuple() {
            if c.first().and_then(|v| v.as_i64()) == Some(35) {
                ids.push(c[1].clone());
            }
        }
    }
    if p.kind == "node" {
        let mut d = ids.clone();
        d.sort();
        d.dedup();
        if d.len() != ids.len() {
            w.violation("unlink-id-reused", "two unlink operations carried the same id".to_string());
        }
    }
}
