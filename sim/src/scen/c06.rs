//! C06 — receiving delivers each peer message exactly once, in order, and survives junk.

use crate::conv::to_val;
use crate::core::{Rng, Tape, World, execute};
use crate::net::{Chunking, EndCfg};
use crate::nodeenv::{COOKIE, PEER_NAME, SUT_NAME, install_conforming_peer};
use crate::peer::{FLAG_DIST_HDR_ATOM_CACHE, FLAG_FRAGMENTS, NetCfg, OTP_FLAGS_BASE, ServerConn, install_epmd};
use crate::runner::{Info, RunOutput, Scenario, Tier, finish};
use crate::sender::{self, SenderCache};
use crate::wire::{self, Val};
use edp_client::{Connection, ConnectionConfig, DistributionFlags};
use serde::{Deserialize, Serialize};
use serde_json::Value;
use std::sync::{Arc, Mutex};
use std::time::Duration;
use tokio::io::AsyncWriteExt;

#[derive(Clone, Debug, Serialize, Deserialize, Default)]
pub struct ItemSpec {
    /// msg | tick | junk
    pub kind: String,
    #[serde(default)]
    pub ctl_kind: u32,
    #[serde(default)]
    pub seed: u64,
    #[serde(default)]
    pub size: u32,
    /// number of fragments (0 = not fragmented)
    #[serde(default)]
    pub n_frags: u32,
    #[serde(default)]
    pub junk: String,
    #[serde(default)]
    pub gap_ms: u32,
}

#[derive(Clone, Debug, Serialize, Deserialize, Default)]
struct Plan {
    /// true: DIST_HDR_ATOM_CACHE negotiated (distribution headers, fragments); false: pass-through
    #[serde(default)]
    header_mode: bool,
    #[serde(default)]
    client: EndCfg,
    #[serde(default)]
    server: EndCfg,
    #[serde(default)]
    cap: u32,
    #[serde(default)]
    items: Vec<ItemSpec>,
    /// allow frames of a fragmented message to be interleaved with what follows
    #[serde(default)]
    interleave: bool,
    /// pass-through mode only: read through Connection::receive_message_from_read_half (the node's path)
    #[serde(default)]
    read_half: bool,
    /// read with Connection::receive_raw: every frame body comes back verbatim, in order
    #[serde(default)]
    raw: bool,
    /// read-half runs: the I/O timeout handed to receive_message_from_read_half (0 = one hour)
    #[serde(default)]
    rh_timeout_ms: u64,
    /// receive_message runs: the connection's I/O timeout (0 = one hour). When set, idle gaps beyond
    /// it occur between frames (never inside one) and timed-out calls are repeated
    #[serde(default)]
    conn_timeout_ms: u64,
    /// with conn_timeout_ms: the caller gives up each receive_message call after this long (drops the
    /// future) and calls again; on this link that can only happen while no byte of a frame has arrived
    #[serde(default)]
    cancel_ms: u64,
    #[serde(default)]
    salt: u64,
}

pub struct C06;

impl Scenario for C06 {
    fn id(&self) -> &'static str {
        "C06"
    }

    fn runs(&self, tier: Tier) -> u64 {
        match tier {
            Tier::Quick => 80_000,
            Tier::Thorough => 4_000_000,
        }
    }

    fn gen_plan(&self, r: &mut Rng, _tier: Tier, _index: u64) -> Value {
        let header_mode = r.chance(1, 2);
        let with_frags = header_mode && r.chance(1, 4);
        let with_junk = r.chance(1, 2);
        let end = |r: &mut Rng| EndCfg {
            chunking: *r.pick(&[Chunking::Whole, Chunking::Random, Chunking::Byte]),
            spurious_16: *r.pick(&[0, 0, 3]),
            stall_16: *r.pick(&[0, 0, 3]),
            short_writes: r.chance(1, 2),
            latency_ms: *r.pick(&[0, 1, 5, 50]),
            max_delay_ms: *r.pick(&[0, 1, 5]),
        };
        let n = r.range(1, 30) as usize;
        let mut items = Vec::new();
        for _ in 0..n {
            let k = r.below(20);
            let kind = if k < 3 {
                "tick"
            } else if k < 6 && with_junk {
                "junk"
            } else {
                "msg"
            };
            let junk_set = if header_mode { sender::JUNK_B } else { sender::JUNK_A };
            items.push(ItemSpec {
                kind: kind.to_string(),
                ctl_kind: r.below(sender::n_kinds() as u64) as u32,
                seed: r.next_u64(),
                size: *r.pick(&[0u32, 1, 4, 12, 40, 200]),
                n_frags: if with_frags && r.chance(1, 3) { r.range(1, 8) as u32 } else { 0 },
                junk: (*r.pick(junk_set)).to_string(),
                gap_ms: *r.pick(&[0u32, 0, 0, 1, 30]),
            });
        }
        let mut p = Plan { header_mode, client: end(r), server: end(r), cap: *r.pick(&[0u32, 0, 4096]), items, interleave: r.chance(1, 2), read_half: !header_mode && r.chance(1, 3), raw: r.chance(1, 10), rh_timeout_ms: 0, conn_timeout_ms: 0, cancel_ms: 0, salt: r.next_u64() };
        if p.read_half && r.chance(1, 2) {
            // a short I/O timeout, idle gaps beyond it, and a network whose mid-frame delays stay far below it
            p.rh_timeout_ms = *r.pick(&[300u64, 2_000]);
            p.client.spurious_16 = 0;
            p.client.max_delay_ms = 0;
            p.server.stall_16 = 0;
            p.server.max_delay_ms = 0;
            p.server.latency_ms = p.server.latency_ms.min(5);
            p.client.latency_ms = p.client.latency_ms.min(5);
            for it in p.items.iter_mut() {
                if r.chance(1, 3) {
                    it.gap_ms = (p.rh_timeout_ms * *r.pick(&[1u64, 2, 5])) as u32 + r.below(50) as u32;
                }
            }
        }
        if !p.read_half && !p.raw && r.chance(1, 6) {
            // short connection timeout, idle gaps beyond it, and a link on which a frame always arrives whole
            p.conn_timeout_ms = *r.pick(&[300u64, 2_000]);
            p.cancel_ms = if r.chance(1, 2) { *r.pick(&[50u64, 100, 170]) } else { 0 };
            p.client.spurious_16 = 0;
            p.client.max_delay_ms = 0;
            p.client.latency_ms = 0;
            p.server = EndCfg { chunking: p.server.chunking, ..Default::default() };
            p.cap = 0;
            p.interleave = false;
            for it in p.items.iter_mut() {
                it.gap_ms = if r.chance(1, 2) { (p.conn_timeout_ms * *r.pick(&[1u64, 2, 4])) as u32 + r.below(40) as u32 } else { 0 };
                it.n_frags = 0;
            }
        }
        serde_json::to_value(p).unwrap()
    }

    fn run(&self, plan: &Value, tape: Tape, keep: bool) -> RunOutput {
        let p: Plan = match serde_json::from_value(plan.clone()) {
            Ok(p) => p,
            Err(_) => return RunOutput::default(),
        };
        if p.cancel_ms > 0 && (p.conn_timeout_ms == 0 || p.cancel_ms >= p.conn_timeout_ms) {
            return RunOutput::default();
        }
        if p.conn_timeout_ms > 0 && (p.server.latency_ms > 0 || p.server.stall_16 > 0 || p.server.short_writes || p.client.spurious_16 > 0 || p.client.latency_ms > 0 || p.items.iter().any(|i| i.n_frags > 0)) {
            return RunOutput::default();
        }
        if p.items.is_empty() || p.items.len() > 64 || (p.cap > 0 && p.cap < 512) {
            return RunOutput::default();
        }
        let world = World::new(tape, keep, p.salt);
        let nontrivial = p.items.len() > 1;
        let ex = execute(&world, 12 * 3_600_000, |w| async move { scenario(&w, &p).await });
        finish(&world, &ex, nontrivial)
    }

    fn info(&self) -> Info {
        Info {
            rule: "one run = a Connection connected through the real handshake (pass-through or distribution-header mode) receiving 1..30 items from a conforming sender model: every control message kind the library parses with seeded fields and payloads, in pass-through form, with a distribution header whose atom-cache references follow an OTP sender's cache (see C14), or fragmented into 1..8 frames cut at arbitrary positions (optionally interleaved with later frames); ticks anywhere; junk frames anywhere (random bytes, garbage and truncated terms behind a valid marker, wrong marker, huge counts before no data, nesting up to 1000, truncated header, fragment header announcing more atom-cache references than bytes); the socket segments, delays and stalls. Reference = the sender's log. Non-trivial = more than one item; distinct = distinct (transfer sequence, event log).",
            components_real: &["edp_client::Connection::receive_message (wire-form dispatch, tick skip, fragment branches)", "edp_client::fragmentation::FragmentAssembler", "edp_client::transport/framing", "erltf decoder incl. decode_with_atom_cache, decode_fragment_header/cont", "edp_client::control::ControlMessage::from_term/to_term", "handshake path (to obtain the connection)"],
            components_stubbed: &["TCP (SimNet)", "EPMD (stub)", "remote node (conforming sender model with an independent encoder)"],
            assumptions: &["junk frames never touch atom-cache slots the sender model uses (reserved segment 7) and use sequence ids disjoint from valid fragments", "fragmented messages use header entries in reserved segment 6 so that the known fragment defect cannot cascade into later messages"],
            fault_prefixes: &["fault.", "net."],
            expected_probes: &["probe.c06.ok_passthrough", "probe.c06.ok_header", "probe.c06.tick_skipped", "probe.c06.junk_rejected", "probe.c06.message_after_junk_intact", "probe.c06.fragmented_sent", "probe.c06.read_half_api", "probe.c06.raw_api", "probe.c06.junk_with_intact_header", "probe.c06.read_half_short_timeout", "probe.c06.idle_timeout_retried", "probe.c06.receive_cancelled_while_idle", "probe.c06.switched_from_connection_to_read_half", "probe.c06.header_with_254_or_255_references"],
        }
    }
}

#[derive(Clone, Debug)]
pub enum Expect {
    Ok(Val, Option<Val>, &'static str),
    Frag(Val, Option<Val>, usize),
    Err(String),
}

/// Builds the frame sequence and the expectation list for a script.
pub fn build_script(w: &Arc<World>, header_mode: bool, interleave: bool, items: &[ItemSpec], cache: &mut SenderCache, seq_base: u64) -> (Vec<(Vec<u8>, u32)>, Vec<Expect>) {
    let mut frames: Vec<(Vec<u8>, u32)> = Vec::new();
    let mut expect: Vec<Expect> = Vec::new();
    // fragmented messages whose later frames are still to be sent
    let mut pending: Vec<(Vec<Vec<u8>>, Val, Option<Val>, usize)> = Vec::new();
    let mut kinds_seen = std::collections::BTreeSet::new();
    for (k, it) in items.iter().enumerate() {
        // maybe emit some frames of pending fragmented messages first
        if interleave {
            while !pending.is_empty() && w.chance(1, 2) {
                let i = w.draw(pending.len() as u32) as usize;
                let f = pending[i].0.remove(0);
                frames.push((f, 0));
                if pending[i].0.is_empty() {
                    let (_, c, p, n) = pending.remove(i);
                    expect.push(Expect::Frag(c, p, n));
                }
            }
        } else {
            while !pending.is_empty() {
                let f = pending[0].0.remove(0);
                frames.push((f, 0));
                if pending[0].0.is_empty() {
                    let (_, c, p, n) = pending.remove(0);
                    expect.push(Expect::Frag(c, p, n));
                }
            }
        }
        let mut r = Rng::new(it.seed);
        match it.kind.as_str() {
            "tick" => {
                frames.push((wire::frame4(&[]), it.gap_ms));
                w.stat("probe.c06.tick_skipped");
            }
            "junk" if header_mode && it.junk == "hdr_ok_term_bad" => {
                // the header is intact (and a conforming sender counts its new entries as delivered);
                // only the terms behind it are cut short
                let (control, has_payload) = sender::gen_control(&mut r, it.ctl_kind as usize, false);
                let payload = if has_payload { Some(Val::tuple(vec![Val::int(k as i128), wire::gen_val(&mut r, it.size)])) } else { None };
                let mut atoms = Vec::new();
                control.atoms(&mut atoms);
                if let Some(p) = &payload {
                    p.atoms(&mut atoms);
                }
                let mut st = Vec::new();
                let refs = cache.choose_refs(&mut r, &atoms, &mut st);
                let hdr_len = wire::write_header_body(&refs).len();
                let full = wire::with_dist_header(&control, payload.as_ref(), &refs);
                // cut inside the control tuple: a prefix of a tuple is never a complete term
                let control_len = wire::with_dist_header(&control, None, &refs).len() - 2 - hdr_len;
                let keep = 2 + hdr_len + (control_len / 2).max(1);
                frames.push((wire::frame4(&full[..keep]), it.gap_ms));
                expect.push(Expect::Err(it.junk.clone()));
                w.stat("probe.c06.junk_with_intact_header");
            }
            "junk" if header_mode && it.junk == "hdr_zero_refs_cache_ref" => {
                // a header that declares no atom references in front of terms that use them (positions that an
                // earlier message's header may have defined): malformed, one error, and nothing learnt from it
                let (control, has_payload) = sender::gen_control(&mut r, it.ctl_kind as usize, false);
                let payload = if has_payload { Some(Val::tuple(vec![Val::int(k as i128), wire::gen_val(&mut r, it.size)])) } else { None };
                let mut atoms = Vec::new();
                control.atoms(&mut atoms);
                if let Some(p) = &payload {
                    p.atoms(&mut atoms);
                }
                let mut pos = wire::AtomPositions::new();
                for a in atoms.iter().filter(|a| a.len() <= 255) {
                    let n = pos.len() as u8;
                    if pos.len() < 255 {
                        pos.entry(a.clone()).or_insert(n);
                    }
                }
                if pos.is_empty() {
                    // no atom to refer to: a plain garbage frame instead
                    frames.push((wire::frame4(&sender::junk_body(&mut r, "pt_garbage")), it.gap_ms));
                } else {
                    let mut body = vec![131u8, 68, 0];
                    wire::enc_term(&mut body, &control, Some(&pos));
                    if let Some(p) = &payload {
                        wire::enc_term(&mut body, p, Some(&pos));
                    }
                    frames.push((wire::frame4(&body), it.gap_ms));
                    w.stat("probe.c06.junk_zero_refs_with_cache_refs");
                }
                expect.push(Expect::Err(it.junk.clone()));
            }
            "junk" => {
                let kind = if it.junk == "hdr_ok_term_bad" || it.junk == "hdr_zero_refs_cache_ref" { "pt_garbage" } else { it.junk.as_str() };
                frames.push((wire::frame4(&sender::junk_body(&mut r, kind)), it.gap_ms));
                expect.push(Expect::Err(it.junk.clone()));
            }
            _ => {
                let (control, has_payload) = sender::gen_control(&mut r, it.ctl_kind as usize, false);
                kinds_seen.insert(it.ctl_kind as usize % sender::n_kinds());
                w.stat(&format!("c06.control_kind.{:02}", it.ctl_kind as usize % sender::n_kinds()));
                let mut payload = if has_payload { Some(Val::tuple(vec![Val::int(k as i128), wire::gen_val(&mut r, it.size)])) } else { None };
                // now and then a header that carries 253, 254 or 255 references (the count is one byte)
                let full_header = header_mode && has_payload && it.n_frags == 0 && it.seed % 16 == 5;
                if full_header {
                    let mut base = Vec::new();
                    control.atoms(&mut base);
                    payload.as_ref().unwrap().atoms(&mut base);
                    base.sort();
                    base.dedup();
                    let want = [253usize, 254, 255, 255][(it.seed >> 4) as usize % 4];
                    let extra: Vec<Val> = (0..want.saturating_sub(base.len())).map(|j| Val::Atom(format!("c6_{}_{}", k, j))).collect();
                    payload = Some(Val::tuple(vec![Val::int(k as i128), wire::gen_val(&mut r, it.size), if extra.is_empty() { Val::Nil } else { Val::List(extra, Box::new(Val::Nil)) }]));
                }
                if !header_mode {
                    frames.push((wire::frame4(&wire::pass_through(&control, payload.as_ref())), it.gap_ms));
                    expect.push(Expect::Ok(control, payload, "pass-through"));
                } else {
                    let mut atoms = Vec::new();
                    control.atoms(&mut atoms);
                    if let Some(p) = &payload {
                        p.atoms(&mut atoms);
                    }
                    if it.n_frags > 0 {
                        let refs = sender::isolated_refs(&atoms);
                        let data = wire::header_and_terms(&control, payload.as_ref(), &refs);
                        // the atom cache section always travels whole in the first fragment
                        let hdr_len = wire::write_header_body(&refs).len();
                        let mut cuts: Vec<usize> = (0..it.n_frags.saturating_sub(1)).map(|_| hdr_len + r.below((data.len() - hdr_len) as u64 + 1) as usize).collect();
                        cuts.sort();
                        let fr: Vec<Vec<u8>> = wire::fragment(seq_base + k as u64, &data, &cuts).into_iter().map(|f| wire::frame4(&f)).collect();
                        let n = fr.len();
                        w.stat("probe.c06.fragmented_sent");
                        pending.push((fr, control, payload, n));
                        // the first frame goes out now
                        let last = pending.len() - 1;
                        let f = pending[last].0.remove(0);
                        frames.push((f, it.gap_ms));
                        if pending[last].0.is_empty() {
                            let (_, c, p, n) = pending.remove(last);
                            expect.push(Expect::Frag(c, p, n));
                        }
                    } else {
                        let mut st = Vec::new();
                        let keep = cache.cache_everything;
                        if full_header {
                            atoms.sort();
                            atoms.dedup();
                            cache.cache_everything = true;
                        }
                        let refs = cache.choose_refs(&mut r, &atoms, &mut st);
                        cache.cache_everything = keep;
                        if refs.len() >= 254 {
                            w.stat("probe.c06.header_with_254_or_255_references");
                        }
                        for s in st {
                            w.stat(s);
                        }
                        frames.push((wire::frame4(&wire::with_dist_header(&control, payload.as_ref(), &refs)), it.gap_ms));
                        expect.push(Expect::Ok(control, payload, "distribution header"));
                    }
                }
            }
        }
    }
    while !pending.is_empty() {
        let f = pending[0].0.remove(0);
        frames.push((f, 0));
        if pending[0].0.is_empty() {
            let (_, c, p, n) = pending.remove(0);
            expect.push(Expect::Frag(c, p, n));
        }
    }
    if kinds_seen.len() == sender::n_kinds() {
        w.stat("probe.c06.all_control_kinds");
    }
    (frames, expect)
}

pub async fn send_script(mut conn: ServerConn, frames: Vec<(Vec<u8>, u32)>) {
    for (f, gap) in frames {
        if gap > 0 {
            tokio::time::sleep(Duration::from_millis(u64::from(gap))).await;
        }
        if conn.write.write_all(&f).await.is_err() {
            break;
        }
    }
    // orderly close after the last frame; keep reading so the client's writes never block
    drop(conn.write);
    let mut sink = [0u8; 64];
    use tokio::io::AsyncReadExt;
    while let Ok(n) = conn.read.read(&mut sink).await {
        if n == 0 {
            break;
        }
    }
}

pub type Got = Result<(Val, Option<Val>), String>;

/// Compares what receive_message returned, call by call, with the sender's expectation list.
pub fn compare(w: &Arc<World>, results: &[Got], expect: &[Expect]) {
    let mut junk_seen = false;
    for (i, e) in expect.iter().enumerate() {
        let Some(got) = results.get(i) else {
            w.violation("message-missing", format!("{} results for {} expected events; first missing: {:?}", results.len(), expect.len(), short_expect(e)));
            return;
        };
        match (e, got) {
            (Expect::Ok(c, p, form), Ok((gc, gp))) => {
                if gc != c || gp != p {
                    w.violation("wrong-message", format!("event {} ({}): received {} / {:?}, the peer sent {} / {:?}", i, form, gc.short(), gp.as_ref().map(|v| v.short()), c.short(), p.as_ref().map(|v| v.short())));
                    return;
                }
                w.stat(if *form == "pass-through" { "probe.c06.ok_passthrough" } else { "probe.c06.ok_header" });
                if junk_seen {
                    w.stat("probe.c06.message_after_junk_intact");
                }
            }
            (Expect::Ok(c, _p, form), Err(err)) => {
                let tag = c.as_tuple().and_then(|t| t.first()).and_then(|v| v.as_i64()).unwrap_or(-1);
                w.violation("valid-message-error", format!("event {}: a valid {} message (control tag {}{}) was answered with an error: {}", i, form, tag, if junk_seen { ", after an earlier junk frame" } else { "" }, err));
                return;
            }
            (Expect::Frag(c, p, n), Ok((gc, gp))) => {
                if gc != c || gp != p {
                    w.violation("wrong-message", format!("event {} (fragmented into {}): received {} instead of {}", i, n, gc.short(), c.short()));
                    return;
                }
                w.stat("probe.c06.ok_fragmented");
            }
            (Expect::Frag(_, _, n), Err(err)) => {
                // every later result is still checked
                w.violation("fragmented-undelivered", format!("a message sent as {} DIST_FRAG_HEADER/DIST_FRAG_CONT frame(s) laid out as the protocol prescribes was not delivered; receive_message returned an error at its last frame: {}", n, err.chars().take(80).collect::<String>()));
            }
            (Expect::Err(kind), Ok((gc, _))) => {
                w.violation("junk-accepted", format!("event {}: junk frame ({}) was returned as a message: {}", i, kind, gc.short()));
                return;
            }
            (Expect::Err(_), Err(_)) => {
                junk_seen = true;
                w.stat("probe.c06.junk_rejected");
            }
        }
    }
    match results.get(expect.len()) {
        Some(Err(_)) => {}
        Some(Ok((c, _))) => w.violation("extra-message", format!("after the peer's last message receive_message returned another one: {}", c.short())),
        None => {}
    }
}

fn short_expect(e: &Expect) -> String {
    match e {
        Expect::Ok(c, _, f) => format!("{} {}", f, c.short()),
        Expect::Frag(c, _, n) => format!("fragmented x{} {}", n, c.short()),
        Expect::Err(k) => format!("junk {}", k),
    }
}

pub async fn connect_client(w: &Arc<World>, header_mode: bool, fragments: bool) -> Option<Connection> {
    connect_client_with_timeout(w, header_mode, fragments, 3_600_000).await
}

pub async fn connect_client_with_timeout(w: &Arc<World>, header_mode: bool, fragments: bool, timeout_ms: u64) -> Option<Connection> {
    install_epmd(w, 3, "peer", 5555, true);
    let flags = DistributionFlags::default().as_u64() | if header_mode { FLAG_DIST_HDR_ATOM_CACHE } else { 0 } | if fragments { FLAG_FRAGMENTS } else { 0 };
    let cfg = ConnectionConfig::new(SUT_NAME, PEER_NAME, COOKIE).with_flags(DistributionFlags::new(flags)).with_timeout(Duration::from_millis(timeout_ms));
    let mut conn = Connection::new(cfg);
    match conn.connect().await {
        Ok(()) => Some(conn),
        Err(e) => {
            w.violation("HARNESS-setup", format!("connect failed: {}", e));
            None
        }
    }
}

pub async fn receive_all(conn: &mut Connection, n: usize) -> Vec<Got> {
    let mut out = Vec::new();
    for _ in 0..n {
        let r = conn.receive_message().await;
        out.push(match r {
            Ok((c, p)) => Ok((to_val(&c.to_term()), p.as_ref().map(to_val))),
            Err(e) => Err(e.to_string()),
        });
    }
    out
}

/// Like receive_all, for a connection with a short I/O timeout on an idle-prone link: a call
/// that times out while the peer is idle is simply repeated (the caller's view of "keep
/// receiving"); everything else is recorded. `n` results are collected.
pub async fn receive_all_retrying_idle_timeouts(w: &Arc<World>, conn: &mut Connection, n: usize) -> Vec<Got> {
    receive_all_retrying(w, conn, n, 0).await
}

/// As above; with `cancel_ms` > 0 the caller additionally abandons a call (drops its future) that has
/// not returned after that long, and calls again.
pub async fn receive_all_retrying(w: &Arc<World>, conn: &mut Connection, n: usize, cancel_ms: u64) -> Vec<Got> {
    let mut out = Vec::new();
    let mut calls = 0;
    while out.len() < n && calls < 400 * n + 4000 {
        calls += 1;
        let res = if cancel_ms > 0 {
            match tokio::time::timeout(Duration::from_millis(cancel_ms), conn.receive_message()).await {
                Ok(r) => r,
                Err(_) => {
                    w.stat("probe.c06.receive_cancelled_while_idle");
                    continue;
                }
            }
        } else {
            conn.receive_message().await
        };
        match res {
            Ok((c, p)) => out.push(Ok((to_val(&c.to_term()), p.as_ref().map(to_val)))),
            Err(e) => {
                let text = e.to_string();
                if matches!(e, edp_client::Error::Timeout(_)) {
                    w.stat("probe.c06.idle_timeout_retried");
                    continue;
                }
                out.push(Err(text));
            }
        }
    }
    out
}

async fn scenario(w: &Arc<World>, p: &Plan) {
    let script: Arc<Mutex<Option<Vec<Expect>>>> = Arc::new(Mutex::new(None));
    let raw_frames: Arc<Mutex<Vec<Vec<u8>>>> = Arc::new(Mutex::new(Vec::new()));
    let peer_flags = OTP_FLAGS_BASE | if p.header_mode { FLAG_DIST_HDR_ATOM_CACHE | FLAG_FRAGMENTS } else { 0 };
    {
        let (p2, script2, raw2) = (p.clone(), script.clone(), raw_frames.clone());
        install_conforming_peer(
            w,
            NetCfg { client: p.client.clone(), server: p.server.clone(), cap: p.cap as usize },
            peer_flags,
            move |w, conn, _seen| {
                let mut cache = SenderCache::default();
                let (frames, expect) = build_script(&w, p2.header_mode, p2.interleave, &p2.items, &mut cache, 1000);
                *raw2.lock().unwrap() = frames.iter().map(|(f, _)| f[4..].to_vec()).collect();
                *script2.lock().unwrap() = Some(expect);
                Box::pin(send_script(conn, frames))
            },
        );
    }
    let conn = if p.conn_timeout_ms > 0 { connect_client_with_timeout(w, p.header_mode, true, p.conn_timeout_ms).await } else { connect_client(w, p.header_mode, true).await };
    let Some(mut conn) = conn else { return };
    // the expectation list exists once the peer has accepted the connection
    let n = loop {
        if let Some(e) = script.lock().unwrap().as_ref() {
            break e.len();
        }
        tokio::time::sleep(Duration::from_millis(1)).await;
    };
    if p.raw {
        w.stat("probe.c06.raw_api");
        let want = raw_frames.lock().unwrap().clone();
        for (i, body) in want.iter().enumerate() {
            match conn.receive_raw().await {
                Ok(b) if &b == body => {}
                Ok(b) => {
                    w.violation("raw-frame-mismatch", format!("receive_raw call {}: {} bytes returned, frame {} has {} bytes", i, b.len(), i, body.len()));
                    return;
                }
                Err(e) => {
                    w.violation("raw-frame-mismatch", format!("receive_raw call {} failed: {}", i, e));
                    return;
                }
            }
        }
        if conn.receive_raw().await.is_ok() {
            w.violation("extra-message", "receive_raw returned a frame after the peer closed".to_string());
        }
        return;
    }
    let results = if p.read_half && !p.header_mode {
        w.stat("probe.c06.read_half_api");
        // some callers receive a message or two through the Connection first and switch to the split reader then
        let first = ((p.salt >> 3) % 4).min(n as u64) as usize;
        let first = if (p.salt >> 3) % 4 == 3 { 0 } else { first };
        let mut out: Vec<Got> = Vec::new();
        for _ in 0..first {
            out.push(match conn.receive_message().await {
                Ok((c, pl)) => Ok((to_val(&c.to_term()), pl.as_ref().map(to_val))),
                Err(e) => Err(e.to_string()),
            });
        }
        if first > 0 {
            w.stat("probe.c06.switched_from_connection_to_read_half");
        }
        let Some(mut half) = conn.take_read_half() else {
            w.violation("HARNESS-setup", "take_read_half returned None on a connected connection".to_string());
            return;
        };
        for _ in first..n + 1 {
            let t = if p.rh_timeout_ms > 0 { Duration::from_millis(p.rh_timeout_ms) } else { Duration::from_secs(3600) };
            if p.rh_timeout_ms > 0 {
                w.stat("probe.c06.read_half_short_timeout");
            }
            let r = Connection::receive_message_from_read_half(&mut half, t).await;
            out.push(match r {
                Ok((c, pl)) => Ok((to_val(&c.to_term()), pl.as_ref().map(to_val))),
                Err(e) => Err(e.to_string()),
            });
        }
        out
    } else if p.conn_timeout_ms > 0 {
        receive_all_retrying(w, &mut conn, n + 1, p.cancel_ms).await
    } else {
        receive_all(&mut conn, n + 1).await
    };
    for (i, r) in results.iter().enumerate() {
        w.ev(format!("recv {} -> {}", i, match r {
            Ok((c, _)) => format!("Ok {}", c.short()),
            Err(e) => format!("Err {}", e.chars().take(60).collect::<String>()),
        }));
    }
    let expect = script.lock().unwrap().clone().unwrap();
    compare(w, &results, &expect);
}
