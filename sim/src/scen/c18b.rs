//! C18, behaviours part: GenServerProcess and GenEventManager answer each call
//! once to its caller and hand each cast / info / event to its callback once.

use crate::conv::{from_val, pid_val, ref_val, to_val};
use crate::core::{Rng, World, YieldCfg};
use crate::nodeenv::start_node;
use crate::procs::{Got, Hist, History};
use crate::scen::c18::Rec;
use crate::wire::Val;
use edp_node::gen_event::{CallResult as EvCallResult, EventResult, GenEventHandler, GenEventManager};
use edp_node::gen_server::{CallResult, GenServer, GenServerProcess};
use erltf::OwnedTerm;
use erltf::types::ExternalPid;
use std::future::Future;
use std::pin::Pin;
use std::sync::{Arc, Mutex};
use std::time::Duration;

type Log = Arc<Mutex<Vec<(String, Val)>>>;

struct Srv {
    log: Log,
    world: Arc<World>,
    stall_16: u32,
}

impl Srv {
    async fn stall(&self) {
        if self.stall_16 > 0 && self.world.chance(self.stall_16, 16) {
            let d = self.world.draw(3);
            tokio::time::sleep(Duration::from_millis(u64::from(d))).await;
        }
    }
}

impl GenServer for Srv {
    async fn init(&mut self, _args: Vec<OwnedTerm>) -> edp_node::Result<()> {
        Ok(())
    }
    async fn handle_call(&mut self, msg: OwnedTerm, from: ExternalPid) -> edp_node::Result<CallResult> {
        let v = to_val(&msg);
        self.log.lock().unwrap().push(("call".into(), Val::tuple(vec![pid_val(&from), v.clone()])));
        self.stall().await;
        if matches!(&v, Val::Tuple(t) if t.first() == Some(&Val::atom("noreply"))) {
            return Ok(CallResult::NoReply);
        }
        Ok(CallResult::Reply(from_val(&Val::tuple(vec![Val::atom("reply"), v]))))
    }
    async fn handle_cast(&mut self, msg: OwnedTerm) -> edp_node::Result<()> {
        self.log.lock().unwrap().push(("cast".into(), to_val(&msg)));
        self.stall().await;
        Ok(())
    }
    async fn handle_info(&mut self, msg: OwnedTerm) -> edp_node::Result<()> {
        self.log.lock().unwrap().push(("info".into(), to_val(&msg)));
        Ok(())
    }
}

struct Handler {
    id: usize,
    log: Log,
}

impl GenEventHandler for Handler {
    fn init<'a>(&'a mut self, _args: OwnedTerm) -> Pin<Box<dyn Future<Output = edp_node::Result<()>> + Send + 'a>> {
        Box::pin(async { Ok(()) })
    }
    fn handle_event<'a>(&'a mut self, event: OwnedTerm) -> Pin<Box<dyn Future<Output = edp_node::Result<EventResult>> + Send + 'a>> {
        Box::pin(async move {
            let v = to_val(&event);
            self.log.lock().unwrap().push((format!("event{}", self.id), v.clone()));
            if matches!(&v, Val::Tuple(t) if t.len() == 3 && t[0] == Val::atom("remove") && t[1] == Val::int(self.id as i128)) {
                return Ok(EventResult::Remove);
            }
            Ok(EventResult::Ok)
        })
    }
    fn handle_call<'a>(&'a mut self, request: OwnedTerm) -> Pin<Box<dyn Future<Output = edp_node::Result<EvCallResult>> + Send + 'a>> {
        Box::pin(async move {
            let v = to_val(&request);
            self.log.lock().unwrap().push((format!("hcall{}", self.id), v.clone()));
            Ok(EvCallResult::Reply(from_val(&Val::tuple(vec![Val::atom("hreply"), Val::int(self.id as i128), v]))))
        })
    }
    fn id(&self) -> OwnedTerm {
        from_val(&Val::Atom(format!("h{}", self.id)))
    }
}

pub async fn behaviours(w: &Arc<World>, seed: u64, stall_16: u32, yield_intensity: u32, yield_mask: u64) {
    let mut r = Rng::new(seed);
    let node = match start_node(w, 5).await {
        Ok(n) => Arc::new(n),
        Err(e) => {
            w.violation("HARNESS-setup", e);
            return;
        }
    };
    let hist: Hist = Arc::new(Mutex::new(History::default()));
    let log: Log = Arc::new(Mutex::new(Vec::new()));
    // clients
    let n_clients = r.range(1, 3) as usize;
    let mut clients = Vec::new();
    for i in 0..n_clients {
        clients.push(node.spawn(Rec { idx: i, hist: hist.clone(), world: w.clone(), stall_16 }).await.unwrap());
    }
    let srv = node.spawn(GenServerProcess::new(Srv { log: log.clone(), world: w.clone(), stall_16 }, node.registry())).await.unwrap();
    let n_handlers = r.range(1, 3) as usize;
    let mut mgr = GenEventManager::new(node.registry());
    for i in 0..n_handlers {
        if mgr.add_handler(Box::new(Handler { id: i, log: log.clone() }), OwnedTerm::Nil).await.is_err() {
            w.violation("HARNESS-setup", "add_handler failed".to_string());
            return;
        }
    }
    let mgr_pid = node.spawn(mgr).await.unwrap();
    w.set_yield_cfg(YieldCfg { intensity: yield_intensity, site_mask: yield_mask, max_sleep_ms: 2 });

    // workload: one list per driver task
    #[derive(Clone)]
    enum Item {
        Call { client: usize, req: Val, reference: Val, noreply: bool },
        Cast(Val),
        Info(Val),
        Notify(Val),
        HCall { client: usize, handler: usize, req: Val, reference: Val },
        /// the client process fails; calls in its name may still be on their way
        KillClient(usize),
    }
    let n_tasks = r.range(1, 3) as usize;
    let mut plans: Vec<Vec<Item>> = Vec::new();
    let mut uniq = 0i128;
    for t in 0..n_tasks {
        let mut items = Vec::new();
        for _ in 0..r.range(2, 10) {
            uniq += 1;
            let tag = Val::tuple(vec![Val::int(t as i128), Val::int(uniq)]);
            let reference = ref_val(&node.make_reference());
            if n_clients >= 2 && r.chance(1, 12) {
                // never client 0: somebody stays to be served afterwards
                items.push(Item::KillClient(r.range(1, n_clients as u64 - 1) as usize));
                continue;
            }
            items.push(match r.below(7) {
                0 | 1 => Item::Call { client: r.below(n_clients as u64) as usize, req: Val::tuple(vec![Val::atom("req"), tag]), reference, noreply: false },
                2 => Item::Call { client: r.below(n_clients as u64) as usize, req: Val::tuple(vec![Val::atom("noreply"), tag]), reference, noreply: true },
                3 => Item::Cast(Val::tuple(vec![Val::atom("cast"), tag])),
                4 => Item::Info(Val::tuple(vec![Val::atom("info"), tag])),
                5 => {
                    if r.chance(1, 6) {
                        Item::Notify(Val::tuple(vec![Val::atom("remove"), Val::int(r.below(n_handlers as u64) as i128), tag]))
                    } else {
                        Item::Notify(Val::tuple(vec![Val::atom("ev"), tag]))
                    }
                }
                _ => Item::HCall { client: r.below(n_clients as u64) as usize, handler: r.below(n_handlers as u64 + 1) as usize, req: Val::tuple(vec![Val::atom("hreq"), tag]), reference },
            });
        }
        plans.push(items);
    }
    let mut handles = Vec::new();
    for items in plans.iter().cloned() {
        let (node, clients, srv, mgr_pid, w) = (node.clone(), clients.clone(), srv.clone(), mgr_pid.clone(), w.clone());
        handles.push(tokio::spawn(async move {
            for it in items {
                let d = w.draw(3);
                if d > 0 {
                    tokio::time::sleep(Duration::from_millis(u64::from(d))).await;
                }
                if let Item::KillClient(c) = &it {
                    let _ = node.send(&clients[*c], from_val(&crate::procs::poison())).await;
                    w.stat("fault.client_process_failure");
                    continue;
                }
                let (to, body) = match &it {
                    Item::Call { client, req, reference, .. } => (&srv, Val::tuple(vec![Val::atom("$gen_call"), Val::tuple(vec![pid_val(&clients[*client]), reference.clone()]), req.clone()])),
                    Item::Cast(v) => (&srv, Val::tuple(vec![Val::atom("$gen_cast"), v.clone()])),
                    Item::Info(v) => (&srv, v.clone()),
                    Item::Notify(v) => (&mgr_pid, Val::tuple(vec![Val::atom("$gen_notify"), v.clone()])),
                    Item::KillClient(_) => unreachable!(),
                    Item::HCall { client, handler, req, reference } => {
                        (&mgr_pid, Val::tuple(vec![Val::atom("$gen_call"), Val::tuple(vec![pid_val(&clients[*client]), reference.clone()]), Val::Atom(format!("h{}", handler)), req.clone()]))
                    }
                };
                // the other way in: the process's handle, with an envelope sender that is somebody else
                // (a relayed call); the answer still belongs to the caller named in the call
                let via_handle = w.chance(1, 5);
                let sent = if via_handle {
                    match node.registry().get(to).await {
                        Some(h) => {
                            w.stat("probe.c18.sent_through_the_process_handle");
                            let relay = clients[(w.draw(clients.len() as u32)) as usize].clone();
                            let from = match w.draw(3) {
                                0 => None,
                                1 => Some(relay),
                                _ => Some(srv.clone()),
                            };
                            h.send(edp_node::Message::Regular { from, body: from_val(&body) }).await.map_err(|e| e.to_string())
                        }
                        None => Err("no handle for a live behaviour process".to_string()),
                    }
                } else {
                    node.send(to, from_val(&body)).await.map_err(|e| e.to_string())
                };
                if let Err(e) = sent {
                    w.violation("behaviour-send-failed", format!("send to a live behaviour process failed: {}", e));
                }
            }
        }));
    }
    for h in handles {
        let _ = h.await;
    }
    tokio::time::sleep(Duration::from_millis(5_000)).await;
    w.set_yield_cfg(YieldCfg::default());

    let log = log.lock().unwrap().clone();
    let events = hist.lock().unwrap().events.clone();
    let count = |kind: &str, v: &Val| log.iter().filter(|(k, x)| k == kind && x == v).count();
    // clients that fail at some point: a reply to them may or may not be handled, everything else stands
    let mortal: Vec<usize> = plans.iter().flatten().filter_map(|i| if let Item::KillClient(c) = i { Some(*c) } else { None }).collect();
    // which handler was removed after which notify (per handler, first remove event that reached it)
    for items in &plans {
        // per-task order of events at each handler
        for h in 0..n_handlers {
            let sent: Vec<&Val> = items.iter().filter_map(|i| if let Item::Notify(v) = i { Some(v) } else { None }).collect();
            let seen: Vec<&Val> = log.iter().filter(|(k, _)| *k == format!("event{}", h)).map(|(_, v)| v).filter(|v| sent.contains(v)).collect();
            // seen must be a subsequence-prefix in order: same relative order as sent
            let mut pos = 0usize;
            for s in &seen {
                match sent[pos..].iter().position(|x| x == s) {
                    Some(p) => pos += p + 1,
                    None => {
                        w.violation("gen-event-order", format!("handler {} saw events of one sender out of order or twice", h));
                        break;
                    }
                }
            }
        }
        for it in items {
            match it {
                Item::Call { client, req, reference, noreply } => {
                    let calls = log.iter().filter(|(k, x)| k == "call" && matches!(x, Val::Tuple(t) if t.get(1) == Some(req))).count();
                    if calls != 1 {
                        w.violation("gen-call-dispatch", format!("handle_call ran {} times for one $gen_call", calls));
                    }
                    let want = Val::tuple(vec![reference.clone(), Val::tuple(vec![Val::atom("reply"), req.clone()])]);
                    let got = events.iter().filter(|e| matches!(&e.got, Got::Regular(v) if matches!(v, Val::Tuple(t) if t.first() == Some(reference)))).collect::<Vec<_>>();
                    if *noreply {
                        if !got.is_empty() {
                            w.violation("gen-call-reply", "a NoReply call was answered".to_string());
                        }
                    } else if mortal.contains(client) && got.is_empty() {
                        w.stat("probe.c18.call_in_the_name_of_a_failed_client");
                    } else if got.len() != 1 || got[0].proc_idx != *client || got[0].got != Got::Regular(want.clone()) {
                        w.violation("gen-call-reply", format!("$gen_call with reference {:?}: {} replies, expected exactly one {:?} at client {}", reference, got.len(), want.short(), client));
                    } else {
                        w.stat("probe.c18.gen_call_replied");
                    }
                }
                Item::KillClient(_) => {}
                Item::Cast(v) => {
                    if count("cast", v) != 1 {
                        w.violation("gen-cast-dispatch", format!("handle_cast ran {} times for one $gen_cast", count("cast", v)));
                    }
                }
                Item::Info(v) => {
                    if count("info", v) != 1 {
                        w.violation("gen-info-dispatch", format!("handle_info ran {} times for one message", count("info", v)));
                    }
                }
                Item::Notify(v) => {
                    for h in 0..n_handlers {
                        let c = count(&format!("event{}", h), v);
                        if c > 1 && !matches!(v, Val::Tuple(t) if t.first() == Some(&Val::atom("remove"))) {
                            w.violation("gen-event-dispatch", format!("handler {} saw one event {} times", h, c));
                        }
                        // a handler that was never asked to remove itself must see every event exactly once
                        let removed = plans.iter().flatten().any(|i| matches!(i, Item::Notify(Val::Tuple(t)) if t.len() == 3 && t[0] == Val::atom("remove") && t[1] == Val::int(h as i128)));
                        if !removed && c != 1 {
                            w.violation("gen-event-dispatch", format!("installed handler {} saw an event {} times", h, c));
                        } else if !removed {
                            w.stat("probe.c18.gen_event_notified");
                        }
                    }
                }
                Item::HCall { client, handler, req, reference } => {
                    let got = events.iter().filter(|e| matches!(&e.got, Got::Regular(v) if matches!(v, Val::Tuple(t) if t.first() == Some(reference)))).collect::<Vec<_>>();
                    if mortal.contains(client) && got.is_empty() {
                        continue;
                    }
                    if got.len() != 1 || got[0].proc_idx != *client {
                        w.violation("gen-event-call-reply", format!("gen_event call: {} replies, expected exactly one at client {}", got.len(), client));
                        continue;
                    }
                    let removed = plans.iter().flatten().any(|i| matches!(i, Item::Notify(Val::Tuple(t)) if t.len() == 3 && t[0] == Val::atom("remove") && t[1] == Val::int(*handler as i128)));
                    let ok_reply = Val::tuple(vec![reference.clone(), Val::tuple(vec![Val::atom("hreply"), Val::int(*handler as i128), req.clone()])]);
                    let err_reply = Val::tuple(vec![reference.clone(), Val::atom("error")]);
                    let g = &got[0].got;
                    let fine = if *handler >= n_handlers { *g == Got::Regular(err_reply) } else if removed { *g == Got::Regular(ok_reply) || *g == Got::Regular(err_reply) } else { *g == Got::Regular(ok_reply) };
                    if !fine {
                        w.violation("gen-event-call-reply", format!("gen_event call to handler {} answered with {:?}", handler, g));
                    }
                }
            }
        }
    }
}
