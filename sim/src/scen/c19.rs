//! C19 — inbound routing is exact and the connection's receiver outlives bad input.

use crate::conv::{from_val, to_pid, to_val};
use crate::core::{Rng, Tape, World, YieldCfg, execute};
use crate::net::{Chunking, EndCfg};
use crate::nodeenv::{OTHER_ADDR, OTHER_NAME, PEER_NAME, SUT_NAME, install_conforming_peer, install_conforming_peer_at, start_node};
use crate::peer::{NetCfg, OTP_FLAGS_BASE, ServerConn, read_frame4};
use crate::procs::{Got, Hist, History, Recorder, poison};
use crate::runner::{Info, RunOutput, Scenario, Tier, finish};
use crate::wire::{self, RecvCache, Val};
use erltf::OwnedTerm;
use erltf::types::Atom;
use serde::{Deserialize, Serialize};
use serde_json::Value;
use std::sync::{Arc, Mutex};
use std::time::Duration;
use tokio::io::AsyncWriteExt;
use tokio::sync::{mpsc, oneshot};

const READ_TIMEOUT_MS: u64 = 10_000;

#[derive(Clone, Debug, Serialize, Deserialize, Default)]
struct InFrame {
    /// send | reg_send | exit | mon_exit | rpc_reply | link | group_leader | unknown | tick |
    /// junk_garbage | junk_notcontrol | junk_marker | junk_truncated | gap | checkpoint
    kind: String,
    /// process index (0..n) ; 100 = never existed
    #[serde(default)]
    target: u32,
    #[serde(default)]
    seed: u64,
    #[serde(default)]
    gap_ms: u64,
}

#[derive(Clone, Debug, Serialize, Deserialize, Default)]
struct Plan {
    #[serde(default)]
    client: EndCfg,
    #[serde(default)]
    server: EndCfg,
    #[serde(default)]
    cap: u32,
    #[serde(default)]
    n_procs: u32,
    /// bit i set: process i has the registered name "name<i>"
    #[serde(default)]
    named_mask: u32,
    /// process 0 is killed before the peer starts sending
    #[serde(default)]
    kill_first: bool,
    #[serde(default)]
    tick_ms: u64,
    #[serde(default)]
    frames: Vec<InFrame>,
    /// "" | overlong | eof_in_frame | close | reset
    #[serde(default)]
    fatal: String,
    #[serde(default)]
    reconnect: bool,
    #[serde(default)]
    local_sends: u32,
    /// some local sends towards the peer cannot be encoded and fail before anything is written
    #[serde(default)]
    local_bad_sends: bool,
    #[serde(default)]
    proc_stall_16: u32,
    #[serde(default)]
    yield_intensity: u32,
    #[serde(default)]
    yield_mask: u64,
    /// creation EPMD hands out to the node (0 = 3)
    #[serde(default)]
    creation: u32,
    /// the peer writes identifiers with the older tags (PID_EXT, PORT_EXT, NEW_REFERENCE_EXT) where they fit
    #[serde(default)]
    legacy_ids: bool,
    #[serde(default)]
    salt: u64,
    /// > 0: the node is connected to a second, well-behaved node as well ("other@otherhost"), which sends
    /// this many messages to a process of its own while the first peer's script runs
    #[serde(default)]
    bystander: u32,
    #[serde(default)]
    bystander_gap_ms: u64,
    /// the connection to the second node is made before the one to the first
    #[serde(default)]
    bystander_first: bool,
}

pub struct C19;

fn margin_ms(p: &Plan) -> u64 {
    let mut m = 200 + 4 * u64::from(p.client.latency_ms + p.server.latency_ms);
    for e in [&p.client, &p.server] {
        if e.spurious_16 > 0 || e.stall_16 > 0 {
            m += 600 * u64::from(e.max_delay_ms);
        }
    }
    // a burst above the mailbox capacity keeps the receiver waiting for the slow handler
    let bursts = p.frames.iter().filter(|f| f.kind == "burst").count() as u64;
    m + if p.proc_stall_16 > 0 { 400 } else { 0 } + bursts * 3_000
}

impl Scenario for C19 {
    fn id(&self) -> &'static str {
        "C19"
    }

    fn runs(&self, tier: Tier) -> u64 {
        match tier {
            Tier::Quick => 40_000,
            Tier::Thorough => 1_200_000,
        }
    }

    fn gen_plan(&self, r: &mut Rng, _tier: Tier, _index: u64) -> Value {
        let end = |r: &mut Rng| EndCfg {
            chunking: *r.pick(&[Chunking::Whole, Chunking::Random, Chunking::Byte]),
            spurious_16: *r.pick(&[0, 0, 3]),
            stall_16: *r.pick(&[0, 0, 3]),
            short_writes: r.chance(1, 2),
            latency_ms: *r.pick(&[0, 1, 5, 50]),
            max_delay_ms: *r.pick(&[0, 1, 5]),
        };
        let n_procs = r.range(2, 4) as u32;
        let n_frames = r.range(3, 24) as usize;
        let mut frames = Vec::new();
        for _ in 0..n_frames {
            let kind = match r.below(24) {
                0..=5 => "send",
                6..=8 => "reg_send",
                9 | 10 => "exit",
                11 | 12 => "mon_exit",
                13 => if r.chance(1, 2) { "rpc_reply" } else { "rpc_near_miss" },
                14 => *r.pick(&["link", "group_leader", "unknown", "send_near_miss", "send_near_miss", "exit_near_miss"]),
                15 | 16 => "tick",
                17 => "junk_garbage",
                18 => "junk_notcontrol",
                19 => "junk_marker",
                20 => "junk_truncated",
                21 => "gap",
                22 => *r.pick(&["gap", "kill", "handover"]),
                _ => "checkpoint",
            };
            let kind = if kind == "checkpoint" && r.chance(1, 4) { if r.chance(5, 6) { "junk_run" } else { "burst" } } else { kind };
            let target = if r.chance(1, 6) { 100 } else { r.below(u64::from(n_procs)) as u32 };
            let gap_ms = match r.below(6) {
                0 => r.below(100),
                1 => r.range(1_000, 9_000),
                2 => r.range(9_500, 10_500),
                3 => r.range(11_000, 60_000),
                4 => r.range(60_000, 600_000),
                _ => r.below(3_000),
            };
            frames.push(InFrame { kind: kind.to_string(), target, seed: r.next_u64(), gap_ms });
        }
        frames.push(InFrame { kind: "checkpoint".into(), ..Default::default() });
        let p = Plan {
            client: end(r),
            server: end(r),
            cap: *r.pick(&[0u32, 0, 4096]),
            n_procs,
            named_mask: r.below(16) as u32,
            kill_first: r.chance(1, 2),
            tick_ms: *r.pick(&[1_000u64, 5_000, 9_000, 15_000, 15_000, 60_000]),
            frames,
            fatal: (*r.pick(&["", "", "", "overlong", "eof_in_frame", "close", "reset", "stall_in_frame", "local_close_reconnect"])).to_string(),
            reconnect: r.chance(1, 2),
            local_sends: *r.pick(&[0u32, 0, 5, 20]),
            local_bad_sends: r.chance(1, 3),
            proc_stall_16: *r.pick(&[0u32, 0, 4]),
            yield_intensity: *r.pick(&[0u32, 4, 10]),
            yield_mask: r.next_u64() | r.next_u64(),
            creation: *r.pick(&[3u32, 3, 1, 5, 200, 255, 70_000]),
            legacy_ids: r.chance(1, 4),
            salt: r.next_u64(),
            ..Default::default()
        };
        let mut p = p;
        if r.chance(1, 3) {
            p.bystander = r.range(2, 12) as u32;
            p.bystander_gap_ms = *r.pick(&[0u64, 5, 200, 3_000, 12_000]);
            p.bystander_first = r.chance(1, 2);
        }
        if p.frames.iter().any(|f| f.kind == "burst") {
            // a thousand frames through a byte-at-a-time, pausing reader would take simulated minutes:
            // bursts run on a calm link (the point is the mailbox, not the socket)
            p.client = EndCfg { chunking: Chunking::Random, latency_ms: p.client.latency_ms.min(5), short_writes: p.client.short_writes, ..Default::default() };
            p.server = EndCfg { chunking: Chunking::Random, latency_ms: p.server.latency_ms.min(5), ..Default::default() };
        }
        serde_json::to_value(p).unwrap()
    }

    fn run(&self, plan: &Value, tape: Tape, keep: bool) -> RunOutput {
        let p: Plan = match serde_json::from_value(plan.clone()) {
            Ok(p) => p,
            Err(_) => return RunOutput::default(),
        };
        if p.n_procs < 1 || p.n_procs > 8 || p.tick_ms < 500 {
            return RunOutput::default();
        }
        if p.frames.iter().any(|f| f.kind == "burst") && (p.client.spurious_16 > 0 || p.client.chunking == Chunking::Byte || p.server.stall_16 > 0) {
            return RunOutput::default();
        }
        let world = World::new(tape, keep, p.salt);
        let ex = execute(&world, 48 * 3_600_000, |w| async move { scenario(&w, &p).await });
        finish(&world, &ex, true)
    }

    fn info(&self) -> Info {
        Info {
            rule: "one run = a real Node with 2..4 recorder processes (some registered, optionally one already dead) and one outstanding rpc, connected to a scripted peer that sends 3..24 inbound frames: SEND / REG_SEND / EXIT / MONITOR_P_EXIT to live, dead and never-existing recipients, an rpc reply, unrouted control kinds, ticks, four kinds of undecodable body, quiet gaps from 0 to 10 simulated minutes during which the peer keeps ticking at its tick period (1..60 s), checkpoints (membership + probe rpc), then optionally a fatal event (over-long length, EOF inside a frame, close, reset) and a reconnect; local sends interleaved. All runs are non-trivial; distinct = distinct (transfer/yield sequence, event log).",
            components_real: &["edp_node::Node (receiver task, route_message, registry, processes, rpc)", "edp_client::Connection::receive_message_from_read_half + send path + handshake", "erltf decoder", "tokio (paused clock, mpsc, RwLock)"],
            components_stubbed: &["TCP (SimNet)", "EPMD (stub)", "remote node (scripted peer, independent encoder)"],
            assumptions: &["mid-frame delays stay below the read timeout; only idle gaps are long", "the peer's ticks are what a conforming OTP node sends (zero-length frames at its tick period)"],
            fault_prefixes: &["fault.", "net."],
            expected_probes: &["probe.c19.delivered_send", "probe.c19.delivered_reg_send", "probe.c19.delivered_exit", "probe.c19.delivered_mon_exit", "probe.c19.rpc_reply_delivered", "probe.c19.dropped_unknown_recipient", "probe.c19.survived_junk", "probe.c19.survived_quiet_period", "probe.c19.deregistered_after_fatal", "probe.c19.reconnected", "probe.c19.checkpoint_ok", "probe.c19.near_miss_not_taken_as_reply", "probe.c19.killed_process_prefix_ok", "probe.c19.long_junk_run", "probe.c19.burst_above_mailbox_capacity", "probe.c19.local_operation_failed_without_io", "probe.c19.name_changed_hands", "probe.c19.notices_behind_a_full_mailbox", "probe.c19.stall_inside_a_frame_beyond_the_read_timeout", "probe.c19.local_close_then_connect_again", "probe.c19.second_node_messages_delivered", "probe.c19.second_node_connection_usable", "probe.c19.second_node_rpc_reply_delivered", "probe.c19.frame_length_multiple_of_64_kib"],
        }
    }
}

const BYSTANDER_PROC: usize = 50;

/// The second node: conforming throughout. Sends `n` messages to `to`, `gap` ms apart, ticks at its tick
/// period, answers probe calls, and keeps the stream open.
async fn bystander_conn(w: Arc<World>, conn: ServerConn, to: Val, n: u32, gap: u64, tick_ms: u64, sent: Arc<Mutex<(Vec<Val>, bool)>>) {
    let ServerConn { mut read, mut write, .. } = conn;
    let (tx, mut rx) = mpsc::unbounded_channel::<Vec<u8>>();
    tokio::spawn(async move {
        while let Some(b) = rx.recv().await {
            if write.write_all(&b).await.is_err() {
                break;
            }
        }
    });
    let tx_r = tx.clone();
    let rpc_from: Arc<Mutex<Option<Val>>> = Arc::new(Mutex::new(None));
    let from_r = rpc_from.clone();
    tokio::spawn(async move {
        let mut cache = RecvCache::default();
        loop {
            let Ok(body) = read_frame4(&mut read).await else { break };
            if body.is_empty() {
                continue;
            }
            let Ok(msg) = wire::parse_dist_frame(&body, &mut cache) else { continue };
            let Some(c) = msg.control.as_tuple() else { continue };
            if c.len() == 4 && c[0].as_i64() == Some(6) {
                let args = msg.payload.as_ref().and_then(|p| p.as_tuple()).and_then(|t| t.get(1)).and_then(|c| c.as_tuple()).and_then(|c| c.get(3)).cloned();
                if matches!(&args, Some(Val::List(els, _)) if els.first().and_then(|v| v.as_i64()) == Some(999)) {
                    let pl = Val::tuple(vec![Val::atom("rex"), Val::atom("probe_ok_other")]);
                    let _ = tx_r.send(wire::frame4(&wire::pass_through(&Val::tuple(vec![Val::int(2), Val::atom(""), c[1].clone()]), Some(&pl))));
                } else {
                    // the call this node leaves outstanding until its script is over
                    *from_r.lock().unwrap() = Some(c[1].clone());
                }
            }
        }
    });
    let tx_t = tx.clone();
    tokio::spawn(async move {
        loop {
            tokio::time::sleep(Duration::from_millis(tick_ms)).await;
            if tx_t.send(wire::frame4(&[])).is_err() {
                break;
            }
        }
    });
    for i in 0..n {
        tokio::time::sleep(Duration::from_millis(gap * u64::from(1 + i % 3))).await;
        let pl = Val::tuple(vec![Val::atom("remote"), Val::atom("other_node"), Val::int(i128::from(i))]);
        sent.lock().unwrap().0.push(pl.clone());
        let _ = tx.send(wire::frame4(&wire::pass_through(&Val::tuple(vec![Val::int(2), Val::atom(""), to.clone()]), Some(&pl))));
        w.stat("c19.second_node_message_sent");
    }
    // the answer to the call that has been outstanding all along
    for _ in 0..20_000 {
        if rpc_from.lock().unwrap().is_some() {
            break;
        }
        tokio::time::sleep(Duration::from_millis(5)).await;
    }
    if let Some(from) = rpc_from.lock().unwrap().clone() {
        let pl = Val::tuple(vec![Val::atom("rex"), Val::tuple(vec![Val::atom("other_result"), Val::int(i128::from(n))])]);
        let _ = tx.send(wire::frame4(&wire::pass_through(&Val::tuple(vec![Val::int(2), Val::atom(""), from]), Some(&pl))));
        w.stat("c19.second_node_replied");
    }
    sent.lock().unwrap().1 = true;
    // keep the stream (and the tasks above) alive until the run ends
    std::future::pending::<()>().await;
}

enum Cmd {
    Frame(Vec<u8>),
    /// partial bytes then orderly close
    TruncatedThenClose(Vec<u8>),
    Close,
    Reset,
}

struct PeerShared {
    rpc_from: Option<Val>,
    fatal_at_ms: Option<u64>,
    script_done: bool,
    /// a second connection was accepted and handshaken by the peer (and is kept open)
    second_connected: bool,
    /// index of the frame being / last sent, for diagnostics
    sent_upto: usize,
    /// longest silence (no byte written) the peer produced, in ms, and the tick period
    max_silence_ms: u64,
}

fn peer_pid(n: u32) -> Val {
    Val::Pid { node: PEER_NAME.to_string(), id: 1000 + n, serial: 0, creation: 99 }
}

fn payload(kind: &str, k: usize, seed: u64) -> Val {
    let mut r = Rng::new(seed);
    Val::tuple(vec![Val::atom("remote"), Val::atom(kind), Val::int(k as i128), wire::gen_val(&mut r, 6)])
}

struct Expect {
    per_proc: Vec<Vec<Got>>,
    rpc_reply: Option<Val>,
    /// processes that a local task was asked to kill while frames were in flight: for them only a
    /// prefix of the expected deliveries is required
    killed: Vec<bool>,
    /// name i ("name<i>") currently belongs to this process (names change hands in 'handover' steps)
    name_owner: Vec<usize>,
}

fn build_frame(p: &Plan, k: usize, f: &InFrame, pids: &[Val], rpc_from: &Option<Val>, exp: &mut Expect) -> Option<Vec<u8>> {
    let alive = |i: u32| (i as usize) < pids.len() && !(p.kill_first && i == 0);
    let target_pid = |i: u32| -> Val {
        if (i as usize) < pids.len() {
            pids[i as usize].clone()
        } else {
            Val::Pid { node: SUT_NAME.to_string(), id: 900_000, serial: 7, creation: 3 }
        }
    };
    let body = match f.kind.as_str() {
        "send" => {
            let mut pl = payload("send", k, f.seed);
            let ctl = Val::tuple(vec![Val::int(2), Val::atom(""), target_pid(f.target)]);
            if f.seed % 8 == 3 && p.client.chunking != Chunking::Byte && p.cap == 0 {
                // a frame whose length is a round number (a multiple of 64 KiB or 4 KiB): whoever reads a body
                // in pieces of such a size meets an empty last piece. Only over an unbounded pipe: through a
                // small one such a frame is in transit for longer than the margin the checkpoints allow
                let unit = if f.seed % 16 == 3 { 1usize << 16 } else { 1 << 12 };
                let with = |n: usize| Val::tuple(vec![Val::atom("remote"), Val::atom("send"), Val::int(k as i128), Val::Bin(vec![0x5a; n])]);
                let have = wire::pass_through(&ctl, Some(&with(0))).len();
                let target = have.div_ceil(unit) * unit * (1 + (f.seed >> 8) as usize % 2);
                pl = with(target - have);
            }
            if alive(f.target) {
                exp.per_proc[f.target as usize].push(Got::Regular(pl.clone()));
            }
            wire::pass_through(&ctl, Some(&pl))
        }
        "reg_send" => {
            let pl = payload("reg_send", k, f.seed);
            let named = (f.target as usize) < pids.len() && p.named_mask & (1 << f.target) != 0;
            let name = if named { format!("name{}", f.target) } else { "nobody_home".to_string() };
            if named {
                let owner = exp.name_owner[f.target as usize];
                if alive(owner as u32) {
                    exp.per_proc[owner].push(Got::Regular(pl.clone()));
                }
            }
            wire::pass_through(&Val::tuple(vec![Val::int(6), peer_pid(1), Val::atom(""), Val::Atom(name)]), Some(&pl))
        }
        "send_near_miss" | "exit_near_miss" => {
            // an identifier this node never issued: a live process's with one field changed (creation 0,
            // creation + 1, serial + 1, id + 2^15). Nobody may receive it.
            let Val::Pid { node, id, serial, creation } = target_pid(f.target) else { return None };
            let to = match f.seed % 4 {
                0 if creation != 0 => Val::Pid { node, id, serial, creation: 0 },
                0 | 1 => Val::Pid { node, id, serial, creation: creation.wrapping_add(1) },
                2 => Val::Pid { node, id, serial: serial.wrapping_add(1), creation },
                _ => Val::Pid { node, id: id.wrapping_add(1 << 15), serial, creation },
            };
            if f.kind == "send_near_miss" {
                wire::pass_through(&Val::tuple(vec![Val::int(2), Val::atom(""), to]), Some(&payload("near_miss", k, f.seed)))
            } else {
                wire::pass_through(&Val::tuple(vec![Val::int(3), peer_pid(2), to, payload("near_miss_exit", k, f.seed)]), None)
            }
        }
        "exit" => {
            let reason = payload("exit", k, f.seed);
            let from = peer_pid(2 + (f.seed % 3) as u32);
            if alive(f.target) {
                exp.per_proc[f.target as usize].push(Got::Exit { from: from.clone(), reason: reason.clone() });
            }
            wire::pass_through(&Val::tuple(vec![Val::int(3), from, target_pid(f.target), reason]), None)
        }
        "mon_exit" => {
            let reason = payload("mon_exit", k, f.seed);
            let from = peer_pid(5 + (f.seed % 3) as u32);
            let mut r = Rng::new(f.seed ^ 0xabc);
            let reference = wire::gen_ref(&mut r, Some(SUT_NAME));
            if alive(f.target) {
                exp.per_proc[f.target as usize].push(Got::MonitorExit { monitored: from.clone(), reference: reference.clone(), reason: reason.clone() });
            }
            wire::pass_through(&Val::tuple(vec![Val::int(21), from, target_pid(f.target), reference, reason]), None)
        }
        "rpc_reply" => {
            let to = rpc_from.clone()?;
            if exp.rpc_reply.is_some() {
                return None;
            }
            let pl = Val::tuple(vec![Val::atom("rex"), payload("rpc_reply", k, f.seed)]);
            exp.rpc_reply = Some(pl.clone());
            wire::pass_through(&Val::tuple(vec![Val::int(2), Val::atom(""), to]), Some(&pl))
        }
        "rpc_near_miss" => {
            // a SEND to an identifier that differs from the outstanding call's reply identifier in
            // exactly one field (another incarnation, another serial, a neighbouring number): nobody's
            let Some(Val::Pid { node, id, serial, creation }) = rpc_from.clone() else { return None };
            // (a neighbouring process number could be a real, later allocated identifier: not used)
            let to = match f.seed % 3 {
                2 if creation != 0 => Val::Pid { node, id, serial, creation: 0 },
                0 | 2 => Val::Pid { node, id, serial, creation: creation.wrapping_add(1) },
                _ => Val::Pid { node, id, serial: serial.wrapping_add(1), creation },
            };
            let pl = Val::tuple(vec![Val::atom("rex"), payload("near_miss", k, f.seed)]);
            wire::pass_through(&Val::tuple(vec![Val::int(2), Val::atom(""), to]), Some(&pl))
        }
        "link" => wire::pass_through(&Val::tuple(vec![Val::int(1), peer_pid(1), target_pid(f.target)]), None),
        "group_leader" => wire::pass_through(&Val::tuple(vec![Val::int(7), peer_pid(1), target_pid(f.target)]), None),
        "unknown" => {
            // a kind nobody knows: 99, or a number that only equals a known kind once it is cut down to 8, 16 or
            // 32 bits (or has its sign dropped), in front of a tuple of that kind's shape
            let wide = [256i128, 65_536, 1 << 32, -65_536, -256];
            let off = wide[(f.seed >> 8) as usize % wide.len()];
            match f.seed % 3 {
                0 => wire::pass_through(&Val::tuple(vec![Val::int(99), Val::atom("what"), target_pid(f.target)]), Some(&Val::atom("ever"))),
                1 => wire::pass_through(&Val::tuple(vec![Val::int(2 + off), Val::atom(""), target_pid(f.target)]), Some(&Val::atom("ever"))),
                _ => wire::pass_through(&Val::tuple(vec![Val::int(if (f.seed >> 4) % 2 == 0 { 3 + off } else { -3 }), peer_pid(1), target_pid(f.target), Val::atom("ever")]), None),
            }
        }
        "tick" => Vec::new(),
        "junk_garbage" => {
            let mut r = Rng::new(f.seed);
            let n = r.range(1, 40) as usize;
            let mut b = vec![112u8, 131];
            b.extend(r.bytes(n).into_iter().map(|x| if x == 0 { 1 } else { x % 60 + 1 }));
            b
        }
        "junk_notcontrol" => {
            let mut b = vec![112u8];
            b.extend_from_slice(&wire::enc_versioned(&Val::atom("not_a_control_tuple")));
            b
        }
        "junk_marker" => {
            let good = wire::pass_through(&Val::tuple(vec![Val::int(2), Val::atom(""), target_pid(f.target)]), Some(&Val::atom("x")));
            let mut b = good;
            b[0] = if f.seed % 2 == 0 { 131 } else { 0 };
            b
        }
        "junk_truncated" => {
            let good = wire::pass_through(&Val::tuple(vec![Val::int(2), Val::atom(""), target_pid(f.target)]), Some(&payload("send", k, f.seed)));
            good[..good.len() - 1 - (f.seed as usize % (good.len() / 2))].to_vec()
        }
        _ => return None,
    };
    Some(wire::frame4(&body))
}

#[allow(clippy::too_many_arguments)]
async fn peer_conn(
    w: Arc<World>,
    conn: ServerConn,
    p: Arc<Plan>,
    pids: Arc<Vec<Val>>,
    ps: Arc<Mutex<PeerShared>>,
    exp: Arc<Mutex<Expect>>,
    ckpt: mpsc::UnboundedSender<(usize, oneshot::Sender<()>)>,
    kill_tx: mpsc::UnboundedSender<usize>,
    second: bool,
) {
    let ServerConn { mut read, mut write, s2c, .. } = conn;
    let (tx, mut rx) = mpsc::unbounded_channel::<Cmd>();
    let ps_w = ps.clone();
    let writer = tokio::spawn(async move {
        let mut last_write = World::now_ms();
        while let Some(cmd) = rx.recv().await {
            let now = World::now_ms();
            {
                let mut g = ps_w.lock().unwrap();
                g.max_silence_ms = g.max_silence_ms.max(now - last_write);
            }
            last_write = now;
            match cmd {
                Cmd::Frame(b) => {
                    if write.write_all(&b).await.is_err() {
                        break;
                    }
                }
                Cmd::TruncatedThenClose(b) => {
                    let _ = write.write_all(&b).await;
                    break;
                }
                Cmd::Close => break,
                Cmd::Reset => {
                    s2c.reset();
                    break;
                }
            }
        }
        drop(write);
    });
    // reader: answers rex probes at once, remembers the outstanding rpc's reply pid
    let tx_r = tx.clone();
    let ps_r = ps.clone();
    let reader = tokio::spawn(async move {
        let mut cache = RecvCache::default();
        loop {
            let Ok(body) = read_frame4(&mut read).await else { break };
            if body.is_empty() {
                continue;
            }
            let Ok(msg) = wire::parse_dist_frame(&body, &mut cache) else { continue };
            let Some(c) = msg.control.as_tuple() else { continue };
            if c.len() == 4 && c[0].as_i64() == Some(6) {
                let from = c[1].clone();
                let args = msg.payload.as_ref().and_then(|p| p.as_tuple()).and_then(|t| t.get(1)).and_then(|c| c.as_tuple()).and_then(|c| c.get(3)).cloned();
                let is_probe = matches!(&args, Some(Val::List(els, _)) if els.first().and_then(|v| v.as_i64()) == Some(999));
                if is_probe {
                    let pl = Val::tuple(vec![Val::atom("rex"), Val::atom("probe_ok")]);
                    let f = wire::frame4(&wire::pass_through(&Val::tuple(vec![Val::int(2), Val::atom(""), from]), Some(&pl)));
                    let _ = tx_r.send(Cmd::Frame(f));
                } else {
                    ps_r.lock().unwrap().rpc_from = Some(from);
                }
            }
        }
    });
    // ticker
    let tx_t = tx.clone();
    let tick_ms = p.tick_ms;
    let ticker = tokio::spawn(async move {
        loop {
            tokio::time::sleep(Duration::from_millis(tick_ms)).await;
            if tx_t.send(Cmd::Frame(wire::frame4(&[]))).is_err() {
                break;
            }
        }
    });

    if second {
        ps.lock().unwrap().second_connected = true;
        // after a reconnect: one routable message proves the new connection works
        let pl = Val::tuple(vec![Val::atom("remote"), Val::atom("after_reconnect")]);
        let live = if p.kill_first { 1 } else { 0 };
        exp.lock().unwrap().per_proc[live].push(Got::Regular(pl.clone()));
        let f = wire::frame4(&wire::pass_through(&Val::tuple(vec![Val::int(2), Val::atom(""), pids[live].clone()]), Some(&pl)));
        let _ = tx.send(Cmd::Frame(f));
        tokio::time::sleep(Duration::from_millis(3_600_000)).await;
        ticker.abort();
        reader.abort();
        writer.abort();
        return;
    }

    // wait until the node's rpc request has arrived (so rpc_reply frames have an addressee)
    for _ in 0..2000 {
        if ps.lock().unwrap().rpc_from.is_some() {
            break;
        }
        tokio::time::sleep(Duration::from_millis(1)).await;
    }
    for (k, f) in p.frames.iter().enumerate() {
        ps.lock().unwrap().sent_upto = k;
        match f.kind.as_str() {
            "gap" => {
                w.stat("c19.gap");
                tokio::time::sleep(Duration::from_millis(f.gap_ms)).await;
            }
            "junk_run" => {
                // a long run of consecutive undecodable frames (framing intact throughout), ticks mixed in
                let n = 20 + (f.seed % 45) as usize;
                let kinds = ["junk_garbage", "junk_notcontrol", "junk_marker", "junk_truncated"];
                for j in 0..n {
                    let jf = InFrame { kind: kinds[(f.seed as usize + j) % 4].to_string(), target: f.target, seed: f.seed.wrapping_add(j as u64), gap_ms: 0 };
                    if let Some(frame) = wire::with_legacy_ids(p.legacy_ids, || build_frame(&p, k, &jf, &pids, &None, &mut exp.lock().unwrap())) {
                        let _ = tx.send(Cmd::Frame(frame));
                    }
                    if j % 7 == 3 {
                        let _ = tx.send(Cmd::Frame(wire::frame4(&[])));
                    }
                }
                w.stat("probe.c19.long_junk_run");
                w.ev(format!("peer: {} undecodable frames in a row", n));
            }
            "burst" => {
                // more messages for one (slow) process than its mailbox holds: the receiver has to wait, nothing may be lost
                let t = f.target as usize;
                if t < pids.len() && !(p.kill_first && t == 0) && !exp.lock().unwrap().killed[t] {
                    let n = 1010 + (f.seed % 60) as usize;
                    for j in 0..n {
                        let pl = Val::tuple(vec![Val::atom("remote"), Val::atom("send"), Val::int(k as i128), Val::int(j as i128)]);
                        exp.lock().unwrap().per_proc[t].push(Got::Regular(pl.clone()));
                        let frame = wire::frame4(&wire::pass_through(&Val::tuple(vec![Val::int(2), Val::atom(""), pids[t].clone()]), Some(&pl)));
                        let _ = tx.send(Cmd::Frame(frame));
                    }
                    if f.seed & 0x100 != 0 {
                        // exit and monitor notices right behind the burst: they arrive while the mailbox is full
                        for tail_kind in ["exit", "mon_exit"] {
                            let tf = InFrame { kind: tail_kind.to_string(), target: f.target, seed: f.seed ^ 0x55, gap_ms: 0 };
                            if let Some(frame) = wire::with_legacy_ids(p.legacy_ids, || build_frame(&p, k, &tf, &pids, &None, &mut exp.lock().unwrap())) {
                                let _ = tx.send(Cmd::Frame(frame));
                            }
                        }
                        w.stat("probe.c19.notices_behind_a_full_mailbox");
                    }
                    w.stat("probe.c19.burst_above_mailbox_capacity");
                    w.ev(format!("peer: burst of {} messages to process {}", n, t));
                    // give the slow handler time to work it off before the next step
                    tokio::time::sleep(Duration::from_millis(10_000)).await;
                }
            }
            "kill" => {
                let t = f.target as usize;
                // never the last live process (probes and local traffic need one)
                let live_left = (0..pids.len()).filter(|i| !(p.kill_first && *i == 0) && !exp.lock().unwrap().killed[*i]).count();
                if t < pids.len() && !(p.kill_first && t == 0) && live_left > 1 && !(t == if p.kill_first { 1 } else { 0 }) {
                    exp.lock().unwrap().killed[t] = true;
                    w.stat("fault.process_killed_during_inbound_traffic");
                    w.ev(format!("peer script: asks for process {} to be killed", t));
                    let _ = kill_tx.send(t);
                }
            }
            "handover" => {
                // name<t> is unregistered and registered for another live process; then its old owner is
                // killed. Later messages to the name belong to the new owner.
                let t = f.target as usize;
                let named = t < pids.len() && p.named_mask & (1 << t) != 0;
                let protected = if p.kill_first { 1 } else { 0 };
                let (old, live): (usize, Vec<usize>) = {
                    let e = exp.lock().unwrap();
                    (if t < pids.len() { e.name_owner[t] } else { 0 }, (0..pids.len()).filter(|i| !(p.kill_first && *i == 0) && !e.killed[*i]).collect())
                };
                if named && live.contains(&old) && live.len() > 1 {
                    // everything sent so far is routed under the old ownership
                    tokio::time::sleep(Duration::from_millis(margin_ms(&p) + 500)).await;
                    let new = *live.iter().find(|i| **i != old).unwrap();
                    exp.lock().unwrap().name_owner[t] = new;
                    w.stat("probe.c19.name_changed_hands");
                    w.ev(format!("peer script: name{} goes from process {} to process {}", t, old, new));
                    let _ = kill_tx.send(1000 + t * 100 + new * 10);
                    tokio::time::sleep(Duration::from_millis(500)).await;
                    if old != protected && live.len() > 2 {
                        exp.lock().unwrap().killed[old] = true;
                        w.stat("fault.process_killed_during_inbound_traffic");
                        let _ = kill_tx.send(old);
                        tokio::time::sleep(Duration::from_millis(1_500)).await;
                    }
                }
            }
            "checkpoint" => {
                let (a, b) = oneshot::channel();
                if ckpt.send((k, a)).is_ok() {
                    let _ = b.await;
                }
            }
            _ => {
                let rpc_from = ps.lock().unwrap().rpc_from.clone();
                let frame = wire::with_legacy_ids(p.legacy_ids, || build_frame(&p, k, f, &pids, &rpc_from, &mut exp.lock().unwrap()));
                if let Some(frame) = frame {
                    if frame.len() > 4 && (frame.len() - 4) % 65536 == 0 {
                        w.stat("probe.c19.frame_length_multiple_of_64_kib");
                    }
                    w.ev(format!("peer: frame {} {} target={}", k, f.kind, f.target));
                    let _ = tx.send(Cmd::Frame(frame));
                }
            }
        }
    }
    // let everything sent so far drain before the fatal event
    tokio::time::sleep(Duration::from_millis(margin_ms(&p))).await;
    ps.lock().unwrap().script_done = true;
    if !p.fatal.is_empty() {
        w.stat(&format!("fault.{}", p.fatal));
        w.ev(format!("peer: fatal {}", p.fatal));
        ps.lock().unwrap().fatal_at_ms = Some(World::now_ms());
        match p.fatal.as_str() {
            "overlong" => {
                let _ = tx.send(Cmd::Frame((64u32 * 1024 * 1024 + 1 + (p.salt % 1000) as u32).to_be_bytes().to_vec()));
            }
            "eof_in_frame" => {
                let good = wire::frame4(&wire::pass_through(&Val::tuple(vec![Val::int(2), Val::atom(""), pids[0].clone()]), Some(&Val::Bin(vec![7u8; 64]))));
                let cut = 1 + (p.salt as usize % (good.len() - 1));
                let _ = tx.send(Cmd::TruncatedThenClose(good[..cut].to_vec()));
            }
            "stall_in_frame" => {
                // the peer stops in the middle of a frame for longer than the read timeout and then carries on.
                // What is still to come of that frame happens to look like a frame of its own (a message for a
                // live process inside the payload): whatever the receiver does about the stall, it must not
                // take payload bytes for a frame.
                let live = if p.kill_first { 1 } else { 0 };
                let inner = wire::frame4(&wire::pass_through(&Val::tuple(vec![Val::int(2), Val::atom(""), pids[live].clone()]), Some(&Val::tuple(vec![Val::atom("remote"), Val::atom("smuggled")]))));
                let nobody = Val::Pid { node: SUT_NAME.to_string(), id: 900_000, serial: 7, creation: 3 };
                let outer = wire::frame4(&wire::pass_through(&Val::tuple(vec![Val::int(2), Val::atom(""), nobody]), Some(&Val::Bin(inner.clone()))));
                let cut = outer.len() - inner.len();
                ticker.abort();
                let _ = tx.send(Cmd::Frame(outer[..cut].to_vec()));
                tokio::time::sleep(Duration::from_millis(READ_TIMEOUT_MS + 2_000 + margin_ms(&p))).await;
                let _ = tx.send(Cmd::Frame(outer[cut..].to_vec()));
                w.stat("probe.c19.stall_inside_a_frame_beyond_the_read_timeout");
            }
            "local_close_reconnect" => {
                // the application closes the listed connection itself and asks the node to connect again;
                // a while later the peer closes the first stream. A connection the node may have made in
                // between is the peer's second, open stream and has nothing to do with the first one's end.
                let _ = kill_tx.send(5000);
                tokio::time::sleep(Duration::from_millis(1_000 + margin_ms(&p))).await;
                let _ = tx.send(Cmd::Close);
                w.stat("probe.c19.local_close_then_connect_again");
            }
            "close" => {
                let _ = tx.send(Cmd::Close);
            }
            _ => {
                let _ = tx.send(Cmd::Reset);
            }
        }
        if p.fatal != "overlong" {
            ticker.abort();
        }
    }
    // stay around (ticking) until the run ends
    tokio::time::sleep(Duration::from_millis(3_600_000)).await;
    ticker.abort();
    reader.abort();
    writer.abort();
}

async fn scenario(w: &Arc<World>, p: &Plan) {
    let p = Arc::new(p.clone());
    let node = match start_node(w, if p.creation == 0 { 3 } else { p.creation }).await {
        Ok(n) => Arc::new(n),
        Err(e) => {
            w.violation("HARNESS-setup", e);
            return;
        }
    };
    let hist: Hist = Arc::new(Mutex::new(History::default()));
    let mut pids_ext = Vec::new();
    for i in 0..p.n_procs as usize {
        let has_burst = p.frames.iter().any(|f| f.kind == "burst" && f.target as usize == i);
        let rec = Recorder {
            idx: i,
            hist: hist.clone(),
            world: w.clone(),
            // with a burst in the plan every handler call takes a little (simulated) time, so the mailbox really fills
            stall_16: if has_burst { 16 } else { p.proc_stall_16 },
            max_stall_ms: if has_burst { 2 } else if p.frames.iter().any(|f| f.kind == "kill" || f.kind == "handover") { 200 } else { 3 },
        };
        match node.spawn(rec).await {
            Ok(pid) => pids_ext.push(pid),
            Err(e) => {
                w.violation("HARNESS-setup", format!("spawn failed: {}", e));
                return;
            }
        }
        if p.named_mask & (1 << i) != 0 {
            let _ = node.register(Atom::new(format!("name{}", i)), pids_ext[i].clone()).await;
        }
    }
    let pids: Arc<Vec<Val>> = Arc::new(pids_ext.iter().map(crate::conv::pid_val).collect());
    if p.kill_first {
        let _ = node.send(&pids_ext[0], from_val(&poison())).await;
        for _ in 0..1000 {
            if node.process_count().await == p.n_procs as usize - 1 {
                break;
            }
            tokio::time::sleep(Duration::from_millis(1)).await;
        }
    }
    // the second node and the process it writes to
    let by_sent: Arc<Mutex<(Vec<Val>, bool)>> = Arc::new(Mutex::new((Vec::new(), false)));
    let mut by_pid = None;
    if p.bystander > 0 {
        let rec = Recorder { idx: BYSTANDER_PROC, hist: hist.clone(), world: w.clone(), stall_16: 0, max_stall_ms: 0 };
        match node.spawn(rec).await {
            Ok(pid) => by_pid = Some(pid),
            Err(e) => {
                w.violation("HARNESS-setup", format!("spawn failed: {}", e));
                return;
            }
        }
        let (to, n, gap, tick, sent) = (crate::conv::pid_val(by_pid.as_ref().unwrap()), p.bystander, p.bystander_gap_ms, p.tick_ms, by_sent.clone());
        install_conforming_peer_at(
            w,
            OTHER_ADDR,
            OTHER_NAME,
            NetCfg { client: p.client.clone(), server: p.server.clone(), cap: 0 },
            OTP_FLAGS_BASE,
            move |w, conn, _seen| Box::pin(bystander_conn(w, conn, to.clone(), n, gap, tick, sent.clone())),
        );
        if p.bystander_first {
            if let Err(e) = node.connect(OTHER_NAME).await {
                w.violation("HARNESS-setup", format!("connect to the second node failed: {}", e));
                return;
            }
        }
    }
    let ps = Arc::new(Mutex::new(PeerShared { rpc_from: None, fatal_at_ms: None, script_done: false, second_connected: false, sent_upto: 0, max_silence_ms: 0 }));
    let exp = Arc::new(Mutex::new(Expect { per_proc: vec![Vec::new(); p.n_procs as usize], rpc_reply: None, killed: vec![false; p.n_procs as usize], name_owner: (0..p.n_procs as usize).collect() }));
    let (ck_tx, mut ck_rx) = mpsc::unbounded_channel::<(usize, oneshot::Sender<()>)>();
    let (kill_tx, mut kill_rx) = mpsc::unbounded_channel::<usize>();
    {
        let (node_k, pids_k, w_k) = (node.clone(), pids_ext.clone(), w.clone());
        tokio::spawn(async move {
            while let Some(t) = kill_rx.recv().await {
                if t == 5000 {
                    let conn = node_k.connections().get(PEER_NAME).map(|e| Arc::clone(e.value()));
                    if let Some(c) = conn {
                        let _ = c.lock().await.close().await;
                    }
                    let _ = node_k.connect(PEER_NAME).await;
                    continue;
                }
                if t >= 1000 {
                    let (name_i, new) = ((t - 1000) / 100, ((t - 1000) % 100) / 10);
                    let name = Atom::new(format!("name{}", name_i));
                    let _ = node_k.unregister(&name).await;
                    if let Err(e) = node_k.register(name, pids_k[new].clone()).await {
                        w_k.violation("name-not-reusable", format!("name{} was unregistered but cannot be registered for process {}: {}", name_i, new, e));
                    }
                    continue;
                }
                let _ = node_k.send(&pids_k[t], from_val(&poison())).await;
            }
        });
    }
    {
        let (p2, pids2, ps2, exp2) = (p.clone(), pids.clone(), ps.clone(), exp.clone());
        install_conforming_peer(
            w,
            NetCfg { client: p.client.clone(), server: p.server.clone(), cap: p.cap as usize },
            OTP_FLAGS_BASE,
            move |w, conn, _seen| {
                let second = conn.conn_index > 0;
                Box::pin(peer_conn(w, conn, p2.clone(), pids2.clone(), ps2.clone(), exp2.clone(), ck_tx.clone(), kill_tx.clone(), second))
            },
        );
    }
    if let Err(e) = node.connect(PEER_NAME).await {
        w.violation("HARNESS-setup", format!("connect to the conforming peer failed: {}", e));
        return;
    }
    if p.bystander > 0 && !p.bystander_first {
        if let Err(e) = node.connect(OTHER_NAME).await {
            w.violation("HARNESS-setup", format!("connect to the second node failed: {}", e));
            return;
        }
    }
    w.set_yield_cfg(YieldCfg { intensity: p.yield_intensity, site_mask: p.yield_mask, max_sleep_ms: 2 });

    // a call to the second node, outstanding until that node's script is over
    let rpc_other = if p.bystander > 0 {
        let node_o = node.clone();
        Some(tokio::spawn(async move { node_o.rpc_call_raw_with_timeout(OTHER_NAME, "m", "f", vec![OwnedTerm::Integer(8), OwnedTerm::Integer(8)], Duration::from_secs(40 * 3600)).await }))
    } else {
        None
    };
    // the outstanding rpc
    let node_rpc = node.clone();
    let rpc_task = tokio::spawn(async move { node_rpc.rpc_call_raw_with_timeout(PEER_NAME, "m", "f", vec![OwnedTerm::Integer(7), OwnedTerm::Integer(7)], Duration::from_secs(40 * 3600)).await });

    // local traffic interleaved with the inbound frames
    let node_l = node.clone();
    let locals = p.local_sends;
    let bad_sends = p.local_bad_sends;
    let live_target = pids_ext[if p.kill_first { 1 } else { 0 }].clone();
    let w_l = w.clone();
    let hist_l = hist.clone();
    let local_task = tokio::spawn(async move {
        for k in 0..locals {
            let d = w_l.draw(200);
            tokio::time::sleep(Duration::from_millis(u64::from(d))).await;
            let _ = node_l.send(&live_target, from_val(&Val::tuple(vec![Val::atom("local"), Val::int(i128::from(k))]))).await;
            if bad_sends && k % 4 == 1 {
                // a local operation towards the peer that fails before anything is written (nothing can
                // carry an atom of 70000 bytes): the connection is as healthy afterwards as before
                let to = erltf::types::ExternalPid::new(Atom::new(PEER_NAME), 77, 0, 99);
                let r = node_l.send(&to, OwnedTerm::Atom(Atom::new("x".repeat(70_000)))).await;
                if r.is_err() {
                    w_l.stat("probe.c19.local_operation_failed_without_io");
                } else {
                    w_l.violation("unencodable-accepted", "a message with an atom of 70000 bytes was sent".to_string());
                }
            }
            // unrelated local churn on the same node: spawn, register, look up, unregister
            if k % 3 == 0 {
                let extra = Recorder { idx: 100 + k as usize, hist: hist_l.clone(), world: w_l.clone(), stall_16: 0, max_stall_ms: 0 };
                if let Ok(pid) = node_l.spawn(extra).await {
                    let name = Atom::new(format!("extra{}", k));
                    let _ = node_l.register(name.clone(), pid).await;
                    let _ = node_l.whereis(&name).await;
                    if k % 2 == 0 {
                        let _ = node_l.unregister(&name).await;
                    }
                    w_l.stat("c19.local_spawn_register");
                }
            }
        }
    });

    // checkpoints requested by the peer script
    let m = margin_ms(&p);
    let mut healthy = true;
    let mut dereg_reported = false;
    loop {
        let (k, ack) = match tokio::time::timeout(Duration::from_millis(100), ck_rx.recv()).await {
            Ok(Some(x)) => x,
            Ok(None) => break,
            Err(_) => {
                if ps.lock().unwrap().script_done {
                    break;
                }
                continue;
            }
        };
        // let in-flight frames arrive
        tokio::time::sleep(Duration::from_millis(m)).await;
        if healthy {
            let present = node.connections().contains_key(PEER_NAME);
            if !present {
                healthy = false;
                if !dereg_reported {
                    dereg_reported = true;
                    report_early_dereg(w, &p, k, &ps);
                }
            } else {
                let r = node.rpc_call_raw_with_timeout(PEER_NAME, "m", "f", vec![OwnedTerm::Integer(999), OwnedTerm::Integer(k as i64)], Duration::from_millis(2000 + 2 * m)).await;
                match r {
                    Ok(v) if to_val(&v) == Val::tuple(vec![Val::atom("rex"), Val::atom("probe_ok")]) => w.stat("probe.c19.checkpoint_ok"),
                    Ok(v) => w.violation("probe-wrong-reply", format!("checkpoint {}: probe rpc returned {}", k, to_val(&v).short())),
                    Err(e) => {
                        healthy = false;
                        if !dereg_reported {
                            dereg_reported = true;
                            if node.connections().contains_key(PEER_NAME) {
                                w.violation("unusable-while-registered", format!("checkpoint at frame {}: the connection is registered but a probe call failed: {}", k, e));
                            } else {
                                report_early_dereg(w, &p, k, &ps);
                            }
                        }
                    }
                }
            }
        }
        let _ = ack.send(());
    }
    // wait for the script to finish and the fatal event (if any) to have happened
    for _ in 0..100_000 {
        let g = ps.lock().unwrap();
        if g.script_done && (p.fatal.is_empty() || g.fatal_at_ms.is_some()) {
            break;
        }
        drop(g);
        tokio::time::sleep(Duration::from_millis(5)).await;
    }
    let _ = local_task.await;

    if p.fatal == "local_close_reconnect" {
        tokio::time::sleep(Duration::from_millis(1_000 + 4 * m + 2_000)).await;
        if ps.lock().unwrap().second_connected {
            // the peer holds an open, handshaken second stream: that connection is listed and works
            if !node.connections().contains_key(PEER_NAME) {
                w.violation("deregistered-while-healthy", "the peer holds an open second connection (made after the application closed the first one locally), but the node no longer lists it: the end of the first stream took it away".to_string());
            } else {
                match node.rpc_call_raw_with_timeout(PEER_NAME, "m", "f", vec![OwnedTerm::Integer(999), OwnedTerm::Integer(77)], Duration::from_millis(2000 + 2 * m)).await {
                    Ok(_) => w.stat("probe.c19.second_connection_usable"),
                    Err(e) => w.violation("unusable-while-registered", format!("the second connection is listed but a probe call failed: {}", e)),
                }
            }
        } else {
            w.stat("c19.local_close_not_followed_by_a_new_connection");
        }
    } else if p.fatal == "stall_in_frame" {
        // stopping after the read timeout and waiting the stall out are both fine; what counts is that no
        // payload byte is taken for a frame (checked with the deliveries below)
        tokio::time::sleep(Duration::from_millis(2 * READ_TIMEOUT_MS + 3 * m + 5_000)).await;
    } else if !p.fatal.is_empty() {
        // deregistered within a bounded time after the fatal event
        tokio::time::sleep(Duration::from_millis(m + 200)).await;
        if node.connections().contains_key(PEER_NAME) {
            // one more read timeout for good measure
            tokio::time::sleep(Duration::from_millis(READ_TIMEOUT_MS + m)).await;
            if node.connections().contains_key(PEER_NAME) {
                w.violation("not-deregistered", format!("{} ms after the peer's fatal event ({}) the connection is still registered", READ_TIMEOUT_MS + 2 * m + 200, p.fatal));
            }
        } else {
            w.stat("probe.c19.deregistered_after_fatal");
        }
        if p.reconnect && healthy {
            match node.connect(PEER_NAME).await {
                Ok(()) => {
                    tokio::time::sleep(Duration::from_millis(m + 100)).await;
                    if node.connections().contains_key(PEER_NAME) {
                        w.stat("probe.c19.reconnected");
                    } else {
                        w.violation("reconnect-failed", "the connection vanished right after a successful reconnect".to_string());
                    }
                }
                Err(e) => w.violation("reconnect-failed", format!("connect after the peer's {} failed: {}", p.fatal, e)),
            }
        }
    } else if healthy {
        tokio::time::sleep(Duration::from_millis(m)).await;
    }
    w.set_yield_cfg(YieldCfg::default());
    tokio::time::sleep(Duration::from_millis(m + 500)).await;

    // ---- the second node: whatever the first peer did, its stream is intact and its messages arrived ----
    if p.bystander > 0 {
        for _ in 0..200_000 {
            if by_sent.lock().unwrap().1 {
                break;
            }
            tokio::time::sleep(Duration::from_millis(5)).await;
        }
        tokio::time::sleep(Duration::from_millis(m + 200)).await;
        let (want, done) = by_sent.lock().unwrap().clone();
        if !done {
            w.violation("HARNESS-bystander", "the second node's script did not finish".to_string());
        }
        let got: Vec<Val> = hist
            .lock()
            .unwrap()
            .events
            .iter()
            .filter(|e| e.proc_idx == BYSTANDER_PROC)
            .filter_map(|e| match &e.got {
                Got::Regular(v) => Some(v.clone()),
                Got::Terminate => None,
                other => Some(Val::atom(&format!("{:?}", other).chars().take(60).collect::<String>())),
            })
            .collect();
        if got == want {
            w.stat("probe.c19.second_node_messages_delivered");
        } else {
            let pos = got.iter().zip(want.iter()).position(|(a, b)| a != b).unwrap_or(got.len().min(want.len()));
            let class = if got.len() > want.len() && pos == want.len() {
                "extra-delivery"
            } else if got.len() < want.len() && pos == got.len() {
                "lost-delivery"
            } else {
                "wrong-delivery"
            };
            w.violation(
                class,
                format!(
                    "a second, well-behaved node sent {} messages to a live process over its own connection; the handler saw {}; first difference at {}: got {:?}, expected {:?}",
                    want.len(),
                    got.len(),
                    pos,
                    got.get(pos).map(|v| v.short()),
                    want.get(pos).map(|v| v.short())
                ),
            );
        }
        if let Some(t) = rpc_other {
            let want = Val::tuple(vec![Val::atom("rex"), Val::tuple(vec![Val::atom("other_result"), Val::int(i128::from(p.bystander))])]);
            match tokio::time::timeout(Duration::from_millis(10), t).await {
                Ok(Ok(Ok(v))) if to_val(&v) == want => w.stat("probe.c19.second_node_rpc_reply_delivered"),
                Ok(Ok(Ok(v))) => w.violation("wrong-delivery", format!("the call to the second node returned {} instead of that node's reply", to_val(&v).short())),
                Ok(Ok(Err(e))) => w.violation("lost-delivery", format!("the call to the second node failed with {} although that node replied over an intact stream", e)),
                _ => w.violation("lost-delivery", "the call to the second node is still pending although that node replied".to_string()),
            }
        }
        if !node.connections().contains_key(OTHER_NAME) {
            w.violation("deregistered-while-healthy", format!("the connection to a second node, whose stream is intact and ticking, is no longer listed (the first peer's script ended with '{}')", p.fatal));
        } else {
            match node.rpc_call_raw_with_timeout(OTHER_NAME, "m", "f", vec![OwnedTerm::Integer(999), OwnedTerm::Integer(1)], Duration::from_millis(2000 + 2 * m)).await {
                Ok(v) if to_val(&v) == Val::tuple(vec![Val::atom("rex"), Val::atom("probe_ok_other")]) => w.stat("probe.c19.second_node_connection_usable"),
                Ok(v) => w.violation("probe-wrong-reply", format!("a probe call to the second node returned {}", to_val(&v).short())),
                Err(e) => w.violation("unusable-while-registered", format!("the connection to the second node is listed but a probe call failed: {}", e)),
            }
        }
    }

    // ---- history oracles ----
    let exp = exp.lock().unwrap();
    let h = hist.lock().unwrap();
    for i in 0..p.n_procs as usize {
        let got_remote: Vec<&Got> = h
            .events
            .iter()
            .filter(|e| e.proc_idx == i)
            .map(|e| &e.got)
            .filter(|g| match g {
                Got::Regular(Val::Tuple(t)) => t.first() != Some(&Val::atom("local")),
                Got::Regular(_) | Got::Exit { .. } | Got::MonitorExit { .. } | Got::Other(_) => true,
                _ => false,
            })
            .collect();
        let want: Vec<&Got> = exp.per_proc[i].iter().collect();
        if got_remote == want {
            for g in &want {
                match g {
                    Got::Regular(Val::Tuple(t)) if t.get(1) == Some(&Val::atom("send")) => w.stat("probe.c19.delivered_send"),
                    Got::Regular(Val::Tuple(t)) if t.get(1) == Some(&Val::atom("reg_send")) => w.stat("probe.c19.delivered_reg_send"),
                    Got::Exit { .. } => w.stat("probe.c19.delivered_exit"),
                    Got::MonitorExit { .. } => w.stat("probe.c19.delivered_mon_exit"),
                    _ => {}
                }
            }
            continue;
        }
        if exp.killed[i] {
            let is_prefix = got_remote.len() <= want.len() && got_remote.iter().zip(want.iter()).all(|(a, b)| a == b);
            if is_prefix {
                w.stat("probe.c19.killed_process_prefix_ok");
                continue;
            }
        }
        if !healthy {
            // already reported; the missing tail is the consequence
            let is_prefix = got_remote.len() <= want.len() && got_remote.iter().zip(want.iter()).all(|(a, b)| a == b);
            if is_prefix {
                continue;
            }
        }
        // classify the first difference
        let pos = got_remote.iter().zip(want.iter()).position(|(a, b)| a != b).unwrap_or(got_remote.len().min(want.len()));
        let class = if got_remote.len() > want.len() && pos == want.len() {
            "extra-delivery"
        } else if got_remote.len() < want.len() && pos == got_remote.len() {
            "lost-delivery"
        } else {
            "wrong-delivery"
        };
        w.violation(
            class,
            format!(
                "process {}: handler saw {} remote events, expected {}; first difference at {}: got {:?}, expected {:?}",
                i,
                got_remote.len(),
                want.len(),
                pos,
                got_remote.get(pos).map(|g| format!("{:?}", g).chars().take(120).collect::<String>()),
                want.get(pos).map(|g| format!("{:?}", g).chars().take(120).collect::<String>())
            ),
        );
    }
    // local sends: in order, exactly once
    let live = if p.kill_first { 1 } else { 0 };
    let locals_seen: Vec<i64> = h
        .events
        .iter()
        .filter(|e| e.proc_idx == live)
        .filter_map(|e| match &e.got {
            Got::Regular(Val::Tuple(t)) if t.first() == Some(&Val::atom("local")) => t.get(1).and_then(|v| v.as_i64()),
            _ => None,
        })
        .collect();
    if locals_seen != (0..i64::from(p.local_sends)).collect::<Vec<_>>() {
        w.violation("local-delivery", format!("local sends seen by the handler: {:?}, expected 0..{}", locals_seen, p.local_sends));
    }
    // unknown recipients: nothing delivered anywhere else is covered by the equality above
    if p.frames.iter().any(|f| f.target == 100 && matches!(f.kind.as_str(), "send" | "exit" | "mon_exit" | "reg_send")) && healthy {
        w.stat("probe.c19.dropped_unknown_recipient");
    }
    if healthy && p.frames.iter().any(|f| f.kind.starts_with("junk")) {
        w.stat("probe.c19.survived_junk");
    }
    if healthy && p.frames.iter().any(|f| f.kind == "gap" && f.gap_ms > 11_000) {
        w.stat("probe.c19.survived_quiet_period");
    }
    // the outstanding rpc
    if let Some(want) = &exp.rpc_reply {
        if healthy {
            match tokio::time::timeout(Duration::from_millis(10), rpc_task).await {
                Ok(Ok(Ok(v))) if &to_val(&v) == want => w.stat("probe.c19.rpc_reply_delivered"),
                Ok(Ok(Ok(v))) => w.violation("wrong-delivery", format!("outstanding rpc returned {} instead of the peer's reply", to_val(&v).short())),
                Ok(Ok(Err(e))) => w.violation("lost-delivery", format!("outstanding rpc failed with {} although the peer replied", e)),
                _ => w.violation("lost-delivery", "outstanding rpc still pending although the peer replied".to_string()),
            }
        }
    } else if healthy {
        // the peer never replied: the call must still be waiting
        if rpc_task.is_finished() {
            match rpc_task.await {
                Ok(Ok(v)) => w.violation("wrong-delivery", format!("the outstanding rpc returned {} although the peer never replied to it", to_val(&v).short())),
                Ok(Err(e)) => w.violation("wrong-delivery", format!("the outstanding rpc ended with {} although the connection was healthy and the peer never replied", e)),
                Err(_) => {}
            }
        } else {
            if p.frames.iter().any(|f| f.kind == "rpc_near_miss") {
                w.stat("probe.c19.near_miss_not_taken_as_reply");
            }
            rpc_task.abort();
        }
    } else {
        rpc_task.abort();
    }
    let _ = to_pid;
}

fn report_early_dereg(w: &Arc<World>, p: &Plan, k: usize, ps: &Arc<Mutex<PeerShared>>) {
    // which earlier frame is the likely trigger?
    let upto = ps.lock().unwrap().sent_upto.min(k);
    let mut culprit = "nothing unusual".to_string();
    for f in p.frames[..=upto.min(p.frames.len() - 1)].iter().rev() {
        match f.kind.as_str() {
            "junk_notcontrol" | "junk_marker" | "junk_garbage" | "junk_truncated" => {
                culprit = format!("an undecodable frame ({})", f.kind);
                break;
            }
            "gap" if f.gap_ms.min(p.tick_ms) + 50 >= READ_TIMEOUT_MS => {
                culprit = format!("a quiet period of {} ms during which the peer ticked every {} ms (no byte for >= the {} ms read timeout)", f.gap_ms, p.tick_ms, READ_TIMEOUT_MS);
                break;
            }
            _ => {}
        }
    }
    if culprit == "nothing unusual" && p.tick_ms + 50 >= READ_TIMEOUT_MS {
        culprit = format!("a quiet period at a checkpoint while the peer ticked every {} ms (no byte for >= the {} ms read timeout)", p.tick_ms, READ_TIMEOUT_MS);
    }
    w.violation("deregistered-while-healthy", format!("at the checkpoint after frame {} the peer was still up and ticking but the connection had been deregistered; last suspicious input: {}", k, culprit));
}
