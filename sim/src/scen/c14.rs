//! C14 — distribution headers and the atom cache resolve every atom correctly.
//! The history half: a sender model with an Erlang-conformant atom cache drives
//! message sequences through a real connected `Connection`; the library's own
//! header-mode frames are read by the independent reader and echoed back.

use crate::conv::{from_val, to_pid, to_val};
use crate::core::{Rng, Tape, World, execute};
use crate::net::{Chunking, EndCfg};
use crate::nodeenv::{PEER_NAME, SUT_NAME, install_conforming_peer};
use crate::peer::{FLAG_DIST_HDR_ATOM_CACHE, FLAG_FRAGMENTS, NetCfg, OTP_FLAGS_BASE, ServerConn, read_frame4};
use crate::runner::{Info, RunOutput, Scenario, Tier, finish};
use crate::scen::c06::{Expect, Got, compare, connect_client, receive_all, send_script};
use crate::sender::SenderCache;
use crate::wire::{self, RecvCache, Val};
use serde::{Deserialize, Serialize};
use serde_json::Value;
use std::sync::{Arc, Mutex};
use std::time::Duration;
use tokio::io::AsyncWriteExt;

#[derive(Clone, Debug, Serialize, Deserialize, Default)]
struct Msg {
    /// number of distinct atoms in the payload
    n_atoms: u32,
    /// length of one extra atom (0 = none); > 255 exercises LongAtoms
    #[serde(default)]
    long_len: u32,
    /// how many such extra atoms (0 and 1 both mean one); they differ in length by one byte each
    #[serde(default)]
    long_count: u32,
    /// recv: this many of the previous message's long atoms occur in this one as well (re-used entries)
    #[serde(default)]
    carry: u32,
    #[serde(default)]
    seed: u64,
    /// recv: send this one in pass-through form / as a tick instead
    #[serde(default)]
    form: String,
    /// recv: idle time before this message
    #[serde(default)]
    gap_ms: u32,
}

#[derive(Clone, Debug, Serialize, Deserialize, Default)]
struct Plan {
    /// "recv" | "send"
    kind: String,
    #[serde(default)]
    msgs: Vec<Msg>,
    /// size of the atom universe: small => heavy re-use across messages
    #[serde(default)]
    universe: u32,
    /// recv: the connection's I/O timeout (0 = one hour); idle gaps beyond it occur between frames
    #[serde(default)]
    conn_timeout_ms: u64,
    /// recv with a connection timeout: > 0 = the caller gives a receive call up (drops its future) after this
    /// long without a result and calls again; on these links that only happens while the peer is idle
    #[serde(default)]
    cancel_ms: u64,
    #[serde(default)]
    client: EndCfg,
    #[serde(default)]
    server: EndCfg,
    #[serde(default)]
    salt: u64,
}

pub struct C14;

fn atom_name(i: u64) -> String {
    match i % 7 {
        0 => format!("a{}", i),
        1 => format!("Elixir.Mod{}", i),
        2 => format!("ü{}", i),
        3 => format!("{}", i),
        _ => format!("atom_number_{}", i),
    }
}

fn long_atoms(m: &Msg) -> Vec<Val> {
    let mut out = Vec::new();
    if m.long_len > 0 {
        // byte length (what the wire counts) versus character count: multi-byte text too
        let (c, width) = match m.seed % 3 {
            0 => ((b'a' + (m.seed % 26) as u8) as char, 1),
            1 => ('é', 2),
            _ => ('日', 3),
        };
        for j in 0..m.long_count.max(1) as usize {
            out.push(Val::Atom(c.to_string().repeat(((m.long_len as usize).saturating_sub(j * width) / width).max(1))));
        }
    }
    out
}

fn payload_for(m: &Msg, universe: u32, carried: &[Val]) -> Val {
    let mut r = Rng::new(m.seed);
    let mut atoms: Vec<Val> = Vec::new();
    let mut seen = std::collections::BTreeSet::new();
    let uni = u64::from(universe.max(m.n_atoms + 1));
    while (atoms.len() as u32) < m.n_atoms {
        let i = r.below(uni);
        if seen.insert(i) {
            atoms.push(Val::Atom(atom_name(i)));
        }
    }
    atoms.extend(long_atoms(m));
    for c in carried {
        if !atoms.contains(c) {
            atoms.push(c.clone());
        }
    }
    if r.chance(1, 8) {
        atoms.push(Val::atom(""));
    }
    // some structure around the atoms, and repeats of the same atom
    let mut els = atoms.clone();
    if let Some(a) = atoms.first() {
        els.push(Val::tuple(vec![a.clone(), a.clone(), Val::int(m.seed as i64 as i128)]));
    }
    // a long atom that occurs only inside another term: the node name of an identifier, the module of a fun
    match m.seed % 16 {
        5 => els.push(Val::Pid { node: format!("n@{}", "h".repeat(256 + (m.seed >> 8) as usize % 700)), id: 1, serial: 2, creation: 3 }),
        6 => els.push(Val::Ref { node: format!("n@{}", "é".repeat(130 + (m.seed >> 8) as usize % 300)), creation: 9, ids: vec![1, 2, 3] }),
        7 => els.push(Val::Export("m".repeat(256 + (m.seed >> 8) as usize % 700), "f".to_string(), 2)),
        8 => els.push(Val::Port { node: format!("n@{}", "p".repeat(256 + (m.seed >> 8) as usize % 300)), id: 77, creation: 3 }),
        _ => {}
    }
    Val::tuple(vec![Val::atom("payload"), Val::list(els)])
}

impl Scenario for C14 {
    fn id(&self) -> &'static str {
        "C14"
    }

    fn runs(&self, tier: Tier) -> u64 {
        match tier {
            Tier::Quick => 40_000,
            Tier::Thorough => 1_500_000,
        }
    }

    fn gen_plan(&self, r: &mut Rng, _tier: Tier, _index: u64) -> Value {
        let send = r.chance(2, 5);
        let end = |r: &mut Rng| EndCfg {
            chunking: *r.pick(&[Chunking::Whole, Chunking::Random]),
            spurious_16: *r.pick(&[0, 0, 3]),
            stall_16: *r.pick(&[0, 0, 3]),
            short_writes: r.chance(1, 2),
            latency_ms: *r.pick(&[0, 1, 5]),
            max_delay_ms: *r.pick(&[0, 1, 5]),
        };
        // a few long histories: hundreds of messages, each introducing fresh atoms, so that far more
        // entries are created and overwritten than the cache has slots while a few atoms stay hot
        // and, rarely, a heavy history: tens of megabytes of atom text pass through the cache (each message
        // brings a few dozen atoms of up to 65535 bytes), far more than it holds at any time
        let heavy = !send && r.chance(1, 1500);
        if heavy {
            let n = r.range(52, 60) as usize;
            let msgs: Vec<Msg> = (0..n)
                .map(|_| Msg { n_atoms: r.range(2, 6) as u32, long_len: r.range(55_000, 65_535) as u32, long_count: r.range(28, 34) as u32, carry: r.range(0, 12) as u32, seed: r.next_u64(), form: "hdr".to_string(), gap_ms: 0 })
                .collect();
            let p = Plan { kind: "recv".to_string(), msgs, universe: 60, conn_timeout_ms: 0, cancel_ms: 0, client: EndCfg::default(), server: EndCfg::default(), salt: r.next_u64() };
            return serde_json::to_value(p).unwrap();
        }
        let long = !send && r.chance(1, 25);
        let n = if long { r.range(300, 600) as usize } else { r.range(1, if send { 8 } else { 30 }) as usize };
        let msgs: Vec<Msg> = (0..n)
            .map(|_| Msg {
                n_atoms: if long { r.range(3, 9) as u32 } else { match r.below(12) {
                    0 => 0,
                    1 => 1,
                    2 => 2,
                    3 => *r.pick(&[250u32, 251, 252, 253, 254, 255]),
                    4 if send => *r.pick(&[256u32, 257, 300]),
                    5 => r.range(100, 255) as u32,
                    _ => r.range(0, 12) as u32,
                } },
                long_len: match r.below(8) {
                    0 => *r.pick(&[256u32, 257, 1000]),
                    1 => *r.pick(&[254u32, 255]),
                    _ => 0,
                },
                long_count: 0,
                carry: 0,
                seed: r.next_u64(),
                form: if send { String::new() } else if long { "hdr".to_string() } else { (*r.pick(&["hdr", "hdr", "hdr", "hdr", "hdr", "hdr", "pt", "tick", "hdr_bad"])).to_string() },
                gap_ms: 0,
            })
            .collect();
        let mut p = Plan { kind: if send { "send" } else { "recv" }.to_string(), msgs, universe: if long { 1_000_000 } else { *r.pick(&[8u32, 40, 400, 3000]) }, conn_timeout_ms: 0, cancel_ms: 0, client: end(r), server: end(r), salt: r.next_u64() };
        if long {
            p.client = EndCfg::default();
            p.server = EndCfg::default();
        }
        if !send && !long && r.chance(1, 6) {
            // the peer goes idle for longer than the connection's I/O timeout between messages;
            // the caller keeps receiving; a frame always arrives whole
            p.conn_timeout_ms = *r.pick(&[300u64, 2_000]);
            p.client = EndCfg { chunking: p.client.chunking, ..Default::default() };
            p.server = EndCfg { chunking: p.server.chunking, ..Default::default() };
            for m in p.msgs.iter_mut() {
                if r.chance(1, 2) {
                    m.gap_ms = (p.conn_timeout_ms * *r.pick(&[1u64, 2, 4])) as u32 + r.below(40) as u32;
                }
            }
            if r.chance(1, 2) {
                p.cancel_ms = *r.pick(&[50u64, 100, 170]);
            }
        }
        serde_json::to_value(p).unwrap()
    }

    fn run(&self, plan: &Value, tape: Tape, keep: bool) -> RunOutput {
        let p: Plan = match serde_json::from_value(plan.clone()) {
            Ok(p) => p,
            Err(_) => return RunOutput::default(),
        };
        if p.msgs.is_empty() || p.msgs.len() > 700 || p.msgs.iter().any(|m| m.n_atoms > 400 || m.long_len > 65_535 || (m.long_len > 5000 && (p.kind == "send" || p.msgs.len() > 60)) || m.long_count > 40) {
            return RunOutput::default();
        }
        let world = World::new(tape, keep, p.salt);
        let nontrivial = p.msgs.len() > 1 || p.kind == "send";
        let ex = execute(&world, 12 * 3_600_000, |w| async move {
            if p.kind == "send" {
                send_dir(&w, &p).await;
            } else {
                recv_dir(&w, &p).await;
            }
        });
        finish(&world, &ex, nontrivial)
    }

    fn info(&self) -> Info {
        Info {
            rule: "one run = (recv) 1..30 messages on one connection from a sender model that keeps an OTP-style atom cache (8 segments x 256 slots, slot chosen independently of the header position, entries created, re-used across messages and overwritten; short and long atoms; 0..255 header references of either parity; some atoms left inline; pass-through frames and ticks interleaved; a few histories of 300..600 messages, and rarely one that passes more than 64 MiB of atom text through the cache), received by the real Connection whose cache persists across receive_message calls; or (send) 1..8 send_message calls in header mode with 0..300 distinct atoms of lengths 0..1000, read by the independent header reader on the peer, echoed back and decoded by the same Connection. Non-trivial = history of at least two messages or a send run; distinct = distinct (transfer sequence, event log).",
            components_real: &["erltf::decoder (decode_with_atom_cache, parse_dist_header_with_cache, ATOM_CACHE_REF resolution, AtomCache)", "erltf::encoder (encode_with_dist_header_multi)", "edp_client::Connection (receive_message, send_message, atom_cache lifetime)", "handshake/transport/framing"],
            components_stubbed: &["TCP (SimNet)", "EPMD (stub)", "remote node: sender-side atom cache model + independent header writer/reader"],
            assumptions: &["any slot assignment by the sender conforms (the receiver must follow the header); real OTP picks the slot by atom hash", "the order of atoms in this library's own header is seeded through hook H11"],
            fault_prefixes: &["fault.", "net."],
            expected_probes: &["probe.c14.old_entry_referenced", "probe.c14.slot_overwritten", "probe.c14.segment_above_zero", "probe.c14.segment_seven", "probe.c14.position_differs_from_slot", "probe.c14.long_atoms_even_count", "probe.c14.long_atoms_odd_count", "probe.c14.own_header_read", "probe.c14.own_header_long_atoms", "probe.c14.echo_decoded", "probe.c14.too_many_atoms_rejected", "probe.c14.header_255_atoms", "probe.c14.failed_frame_with_intact_header", "probe.c14.long_history", "probe.c14.over_64_mib_of_atom_text", "probe.c06.idle_timeout_retried", "probe.c06.receive_cancelled_while_idle"],
        }
    }
}

async fn recv_dir(w: &Arc<World>, p: &Plan) {
    let script: Arc<Mutex<Option<Vec<Expect>>>> = Arc::new(Mutex::new(None));
    {
        let (p2, script2) = (p.clone(), script.clone());
        install_conforming_peer(
            w,
            NetCfg { client: p.client.clone(), server: p.server.clone(), cap: 0 },
            OTP_FLAGS_BASE | FLAG_DIST_HDR_ATOM_CACHE | FLAG_FRAGMENTS,
            move |w, conn, _seen| {
                let heavy = p2.msgs.iter().any(|m| m.long_count > 1);
                let mut cache = SenderCache { all_segments: true, cache_everything: heavy, ..Default::default() };
                let mut frames = Vec::new();
                let mut expect = Vec::new();
                let mut prev_long: Vec<Val> = Vec::new();
                for (k, m) in p2.msgs.iter().enumerate() {
                    let mut r = Rng::new(m.seed ^ 0x14);
                    if m.form == "tick" {
                        frames.push((wire::frame4(&[]), m.gap_ms));
                        continue;
                    }
                    let control = Val::tuple(vec![Val::int(2), Val::atom(""), wire::gen_pid(&mut r, Some(SUT_NAME))]);
                    let payload = Val::tuple(vec![Val::int(k as i128), payload_for(m, p2.universe, &prev_long[..(m.carry as usize).min(prev_long.len())])]);
                    prev_long = long_atoms(m);
                    if m.form == "pt" {
                        frames.push((wire::frame4(&wire::pass_through(&control, Some(&payload))), m.gap_ms));
                        expect.push(Expect::Ok(control, Some(payload), "pass-through"));
                        continue;
                    }
                    let mut atoms = Vec::new();
                    control.atoms(&mut atoms);
                    payload.atoms(&mut atoms);
                    let mut st = Vec::new();
                    let refs = cache.choose_refs(&mut r, &atoms, &mut st);
                    for s in st {
                        w.stat(s);
                    }
                    if refs.len() == 255 {
                        w.stat("probe.c14.header_255_atoms");
                    }
                    if m.form == "hdr_bad" {
                        // the header is intact and the sender counts its entries as delivered; the terms are cut short
                        let hdr_len = wire::write_header_body(&refs).len();
                        let full = wire::with_dist_header(&control, None, &refs);
                        let keep = 2 + hdr_len + ((full.len() - 2 - hdr_len) / 2).max(1);
                        frames.push((wire::frame4(&full[..keep]), m.gap_ms));
                        expect.push(Expect::Err("intact header, truncated terms".to_string()));
                        w.stat("probe.c14.failed_frame_with_intact_header");
                        continue;
                    }
                    frames.push((wire::frame4(&wire::with_dist_header(&control, Some(&payload), &refs)), m.gap_ms));
                    expect.push(Expect::Ok(control, Some(payload), "distribution header"));
                    if p2.msgs.len() >= 300 && k == p2.msgs.len() - 1 {
                        w.stat("probe.c14.long_history");
                    }
                    if k == p2.msgs.len() - 1 && p2.msgs.iter().map(|m| u64::from(m.long_len) * u64::from(m.long_count.max(1))).sum::<u64>() > (64 << 20) {
                        w.stat("probe.c14.over_64_mib_of_atom_text");
                    }
                }
                *script2.lock().unwrap() = Some(expect);
                Box::pin(send_script(conn, frames))
            },
        );
    }
    let conn = if p.conn_timeout_ms > 0 { crate::scen::c06::connect_client_with_timeout(w, true, true, p.conn_timeout_ms).await } else { connect_client(w, true, true).await };
    let Some(mut conn) = conn else { return };
    let n = loop {
        if let Some(e) = script.lock().unwrap().as_ref() {
            break e.len();
        }
        tokio::time::sleep(Duration::from_millis(1)).await;
    };
    let results: Vec<Got> = if p.conn_timeout_ms > 0 { crate::scen::c06::receive_all_retrying(w, &mut conn, n + 1, p.cancel_ms).await } else { receive_all(&mut conn, n + 1).await };
    for (i, r) in results.iter().enumerate() {
        w.ev(format!("recv {} -> {}", i, if r.is_ok() { "Ok".to_string() } else { format!("Err {}", r.as_ref().unwrap_err().chars().take(60).collect::<String>()) }));
    }
    let expect = script.lock().unwrap().clone().unwrap();
    compare(w, &results, &expect);
}

#[derive(Default)]
struct EchoLog {
    frames: Vec<Result<wire::DistMsg, String>>,
}

async fn echo_peer(mut conn: ServerConn, log: Arc<Mutex<EchoLog>>, n: usize) {
    let mut cache = RecvCache::default();
    for _ in 0..n {
        let Ok(body) = read_frame4(&mut conn.read).await else { break };
        let parsed = wire::parse_dist_frame(&body, &mut cache);
        log.lock().unwrap().frames.push(parsed);
        // echo the very same bytes back
        if conn.write.write_all(&wire::frame4(&body)).await.is_err() {
            break;
        }
    }
    tokio::time::sleep(Duration::from_secs(7200)).await;
}

async fn send_dir(w: &Arc<World>, p: &Plan) {
    let log = Arc::new(Mutex::new(EchoLog::default()));
    // how many sends will succeed is not known to the peer: it serves frames until the run ends
    {
        let log2 = log.clone();
        install_conforming_peer(
            w,
            NetCfg { client: p.client.clone(), server: p.server.clone(), cap: 0 },
            OTP_FLAGS_BASE | FLAG_DIST_HDR_ATOM_CACHE | FLAG_FRAGMENTS,
            move |_w, conn, _seen| Box::pin(echo_peer(conn, log2.clone(), 1000)),
        );
    }
    let Some(mut conn) = connect_client(w, true, false).await else { return };
    let from = wire::gen_pid(&mut Rng::new(1), Some(SUT_NAME));
    let mut sent: Vec<(Val, Val)> = Vec::new();
    for (k, m) in p.msgs.iter().enumerate() {
        let mut r = Rng::new(m.seed ^ 0x41);
        let to = wire::gen_pid(&mut r, Some(PEER_NAME));
        let control = Val::tuple(vec![Val::int(2), Val::atom(""), to.clone()]);
        let payload = Val::tuple(vec![Val::int(k as i128), payload_for(m, p.universe, &[])]);
        let mut atoms = Vec::new();
        control.atoms(&mut atoms);
        payload.atoms(&mut atoms);
        let res = conn.send_message(to_pid(&from).unwrap(), to_pid(&to).unwrap(), from_val(&payload)).await;
        w.ev(format!("send {} with {} distinct atoms -> {}", k, atoms.len(), if res.is_ok() { "Ok".to_string() } else { res.as_ref().unwrap_err().to_string() }));
        match res {
            Ok(()) => {
                if atoms.len() > 255 {
                    w.violation("too-many-atoms-accepted", format!("a message with {} distinct atoms was sent although a header holds at most 255", atoms.len()));
                    return;
                }
                sent.push((control, payload));
            }
            Err(e) => {
                if atoms.len() <= 255 && atoms.iter().all(|a| a.len() <= 65535) {
                    w.violation("encodable-message-rejected", format!("a message with {} distinct atoms (longest {} bytes) was refused: {}", atoms.len(), atoms.iter().map(|a| a.len()).max().unwrap_or(0), e));
                    return;
                }
                w.stat("probe.c14.too_many_atoms_rejected");
            }
        }
    }
    // the echoes come back in order
    let results: Vec<Got> = {
        let mut out = Vec::new();
        for _ in 0..sent.len() {
            let r = conn.receive_message().await;
            out.push(match r {
                Ok((c, pl)) => Ok((to_val(&c.to_term()), pl.as_ref().map(to_val))),
                Err(e) => Err(e.to_string()),
            });
        }
        out
    };
    let log = log.lock().unwrap();
    if log.frames.len() != sent.len() {
        w.violation("frame-count", format!("{} sends succeeded, the peer read {} frames", sent.len(), log.frames.len()));
        return;
    }
    for (i, ((control, payload), parsed)) in sent.iter().zip(log.frames.iter()).enumerate() {
        match parsed {
            Err(e) => {
                w.violation("own-encoding-unreadable", format!("send {}: an independent reader of the header layout cannot read the frame: {}", i, e));
                return;
            }
            Ok(m) => {
                if m.form != 68 {
                    w.violation("own-encoding-wrong", format!("send {}: header mode negotiated but the frame starts with marker {}", i, m.form));
                    return;
                }
                if &m.control != control || m.payload.as_ref() != Some(payload) {
                    w.violation("own-encoding-wrong", format!("send {}: independent reader sees {} / {:?} instead of {} / {}", i, m.control.short(), m.payload.as_ref().map(|v| v.short()), control.short(), payload.short()));
                    return;
                }
                w.stat("probe.c14.own_header_read");
                let mut atoms = Vec::new();
                payload.atoms(&mut atoms);
                if atoms.iter().any(|a| a.len() > 255) {
                    w.stat("probe.c14.own_header_long_atoms");
                }
                if m.hdr_atoms == 255 {
                    w.stat("probe.c14.header_255_atoms");
                }
            }
        }
        match &results[i] {
            Ok((c, pl)) if c == control && pl.as_ref() == Some(payload) => w.stat("probe.c14.echo_decoded"),
            Ok((c, _)) => {
                w.violation("own-decoder-disagrees", format!("send {}: the library decodes its own frame as {} instead of {}", i, c.short(), control.short()));
                return;
            }
            Err(e) => {
                w.violation("own-decoder-disagrees", format!("send {}: the library cannot decode its own frame: {}", i, e));
                return;
            }
        }
    }
}
