//! C17 — each remote call gets its own reply; nothing is left behind afterwards.

use crate::conv::to_val;
use crate::core::{Rng, Tape, World, YieldCfg, execute};
use crate::net::{Chunking, EndCfg};
use crate::nodeenv::{OTHER_ADDR, OTHER_NAME, PEER_NAME, install_conforming_peer, install_conforming_peer_at, start_node};
use crate::peer::{NetCfg, OTP_FLAGS_BASE, ServerConn, read_frame4};
use crate::runner::{Info, RunOutput, Scenario, Tier, finish};
use crate::wire::{self, RecvCache, Val};
use erltf::OwnedTerm;
use serde::{Deserialize, Serialize};
use serde_json::Value;
use std::sync::{Arc, Mutex};
use std::time::Duration;
use tokio::io::AsyncWriteExt;
use tokio::sync::mpsc;

#[derive(Clone, Debug, Serialize, Deserialize, Default)]
struct CallSpec {
    #[serde(default)]
    timeout_ms: u64,
    #[serde(default)]
    start_delay_ms: u64,
    /// normal | twice | never | unknown_pid | resend_earlier
    #[serde(default)]
    reply: String,
    #[serde(default)]
    delay_ms: u64,
    #[serde(default)]
    to_unconnected: bool,
    /// before this call, move the node's process-number counter forward to just before its
    /// 2^20 wrap (by this many numbers), so that later reply identifiers re-use earlier numbers
    /// with the next serial while earlier calls are still outstanding
    #[serde(default)]
    jump_to_wrap: u32,
    /// the arguments contain an atom of 70000 bytes: the request cannot be encoded, the call must fail
    /// (and leave nothing behind) without anything reaching the peer
    #[serde(default)]
    unencodable: bool,
    /// > 0: the caller gives the call up (drops its future, as an outer timeout or select would) this many
    /// ms after the peer has seen the request; it then carries on with its next call
    #[serde(default)]
    abandon_ms: u64,
}

#[derive(Clone, Debug, Serialize, Deserialize, Default)]
struct Plan {
    #[serde(default)]
    faults: bool,
    #[serde(default)]
    client: EndCfg,
    #[serde(default)]
    server: EndCfg,
    #[serde(default)]
    cap: u32,
    #[serde(default)]
    yield_intensity: u32,
    #[serde(default)]
    yield_mask: u64,
    #[serde(default)]
    yield_sleep_ms: u32,
    #[serde(default)]
    callers: Vec<Vec<CallSpec>>,
    /// "" | peer_close | peer_reset | write_error
    #[serde(default)]
    conn_fault: String,
    #[serde(default)]
    conn_fault_at: u64,
    #[serde(default)]
    conn_fault_delay_ms: u64,
    /// the node connects and makes this many calls BEFORE Node::start (which is legal), and EPMD
    /// then hands out the creation value the node already had (1)
    #[serde(default)]
    calls_before_start: u32,
    /// (start ms, duration ms): another user of the connection (Node::connections()) keeps its mutex
    /// for that long, e.g. a sender whose write is slow; calls queue up behind it
    #[serde(default)]
    lock_holds: Vec<(u64, u64)>,
    /// creation EPMD hands out (0 = 3); replies may use the older identifier tags when it fits in a byte
    #[serde(default)]
    creation: u32,
    #[serde(default)]
    legacy_ids: bool,
    #[serde(default)]
    salt: u64,
    /// > 0: the node is connected to a second, well-behaved node as well, and one more task makes this
    /// many calls to it while the callers above are busy with the first
    #[serde(default)]
    other_calls: u32,
}

pub struct C17;

fn margin_ms(p: &Plan) -> u64 {
    let mut m = 50 + 2 * u64::from(p.client.latency_ms + p.server.latency_ms) + 8 * u64::from(p.yield_sleep_ms);
    for e in [&p.client, &p.server] {
        if e.spurious_16 > 0 || e.stall_16 > 0 {
            m += 400 * u64::from(e.max_delay_ms);
        }
    }
    m
}

impl Scenario for C17 {
    fn id(&self) -> &'static str {
        "C17"
    }

    fn runs(&self, tier: Tier) -> u64 {
        match tier {
            Tier::Quick => 120_000,
            Tier::Thorough => 6_000_000,
        }
    }

    fn gen_plan(&self, r: &mut Rng, _tier: Tier, _index: u64) -> Value {
        let faults = r.chance(1, 2);
        let calm = !faults || r.chance(1, 2);
        let end = |r: &mut Rng| -> EndCfg {
            if calm {
                EndCfg { chunking: *r.pick(&[Chunking::Whole, Chunking::Random, Chunking::Byte]), latency_ms: *r.pick(&[0, 1, 5]), short_writes: r.chance(1, 2), stall_16: *r.pick(&[0, 4]), ..Default::default() }
            } else {
                EndCfg {
                    chunking: *r.pick(&[Chunking::Whole, Chunking::Random, Chunking::Byte]),
                    spurious_16: *r.pick(&[0, 2, 6]),
                    stall_16: *r.pick(&[0, 2, 6]),
                    short_writes: r.chance(1, 2),
                    latency_ms: *r.pick(&[0, 1, 5, 50]),
                    max_delay_ms: *r.pick(&[0, 1, 5, 20]),
                }
            }
        };
        let mut client = end(r);
        let server = end(r);
        // in a tenth of the runs another user of the connection lets go of its mutex just before a queued call's
        // timeout would have run out, and the call's own write then takes a few ms: the time a call spends before
        // it starts to wait for its answer comes close to, or exceeds, its timeout
        let tight = r.chance(1, 10);
        if tight {
            client.stall_16 = *r.pick(&[4, 8, 12]);
            client.max_delay_ms = *r.pick(&[2, 5, 20]);
        }
        let n_callers = r.range(1, 8) as usize;
        let mut callers = Vec::new();
        let mut p = Plan {
            faults,
            client,
            server,
            cap: *r.pick(&[0u32, 0, 4096]),
            yield_intensity: *r.pick(&[0u32, 4, 8, 12]),
            yield_mask: r.next_u64() | r.next_u64(),
            yield_sleep_ms: *r.pick(&[0u32, 1, 3]),
            callers: Vec::new(),
            conn_fault: String::new(),
            conn_fault_at: 0,
            conn_fault_delay_ms: 0,
            calls_before_start: if r.chance(1, 10) { r.range(1, 3) as u32 } else { 0 },
            lock_holds: if r.chance(1, 8) { (0..r.range(1, 2)).map(|_| (r.below(60), *r.pick(&[300u64, 2_000, 8_000, 40_000]))).collect() } else { Vec::new() },
            creation: *r.pick(&[3u32, 3, 1, 6, 255, 70_000]),
            legacy_ids: r.chance(1, 4),
            salt: r.next_u64(),
            other_calls: 0,
        };
        let m = margin_ms(&p);
        for _ in 0..n_callers {
            let n = r.range(1, 4) as usize;
            let mut calls = Vec::new();
            for _ in 0..n {
                let mut timeout_ms = *r.pick(&[3 * m + 200, 3000 + 3 * m, 20_000 + 3 * m]);
                if r.chance(1, 25) {
                    // no time at all, or next to none: such a call times out (the answer needs a round trip)
                    timeout_ms = *r.pick(&[0u64, 0, 1, 2]);
                }
                let reply = (*r.pick(&["normal", "normal", "normal", "twice", "never", "unknown_pid", "resend_earlier"])).to_string();
                // delays: well before, just before, just after, well after the caller's timeout
                let delay_ms = match r.below(8) {
                    0 => timeout_ms.saturating_sub(m + 1),
                    1 => timeout_ms + m + 1,
                    2 => timeout_ms.saturating_sub(1),
                    3 => timeout_ms + 1,
                    4 => timeout_ms * 2,
                    _ => r.below(timeout_ms / 3 + 1),
                };
                let jump_to_wrap = if r.chance(1, 12) { r.range(1, 4) as u32 } else { 0 };
                let mut spec = CallSpec { timeout_ms, start_delay_ms: r.below(40), reply, delay_ms, to_unconnected: r.chance(1, 16), jump_to_wrap, unencodable: r.chance(1, 20), abandon_ms: 0 };
                if !faults && !spec.to_unconnected && r.chance(1, 12) {
                    // "no timeout": the largest duration there is (u64::MAX here stands for Duration::MAX); the peer answers
                    // (fault-free runs only: with the connection gone such a call has nothing left to wait for, and
                    // whether it must then return is not what the statement decides)
                    spec.timeout_ms = u64::MAX;
                    spec.reply = (*r.pick(&["normal", "normal", "twice"])).to_string();
                    spec.delay_ms = r.below(2_000);
                }
                if r.chance(1, 10) {
                    // given up by the caller: well before, just before, just after the reply is due, or while none comes
                    spec.abandon_ms = match r.below(4) {
                        0 => 1 + r.below(20),
                        1 => spec.delay_ms.saturating_sub(1).max(1).min(600_000),
                        2 => spec.delay_ms.saturating_add(1).min(600_000),
                        _ => 1 + r.below(spec.timeout_ms.min(30_000)),
                    };
                }
                calls.push(spec);
            }
            callers.push(calls);
        }
        if !faults && r.chance(1, 40) {
            // one caller, a long history of answered calls, old replies re-sent now and then
            let n = r.range(70, 140) as usize;
            let calls: Vec<CallSpec> = (0..n)
                .map(|_| CallSpec { timeout_ms: 3000 + 3 * m, start_delay_ms: 0, reply: if r.chance(1, 5) { "resend_old" } else { "normal" }.to_string(), delay_ms: r.below(3), to_unconnected: false, jump_to_wrap: 0, unencodable: false, abandon_ms: if r.chance(1, 12) { 1 + r.below(4) } else { 0 } })
                .collect();
            callers = vec![calls];
            p.calls_before_start = 0;
        }
        if !faults && !tight && r.chance(1, 50) {
            // a crowd: 100..300 callers with one call each, all outstanding together before the first answer comes
            let n = r.range(100, 300) as usize;
            callers = (0..n)
                .map(|_| vec![CallSpec { timeout_ms: 20_000 + 3 * m, start_delay_ms: r.below(40), reply: if r.chance(1, 10) { "twice" } else { "normal" }.to_string(), delay_ms: 500 + r.below(1500), to_unconnected: false, jump_to_wrap: 0, unencodable: false, abandon_ms: 0 }])
                .collect();
            p.calls_before_start = 0;
            p.lock_holds.clear();
        }
        if tight {
            let ci = r.below(callers.len() as u64) as usize;
            let c = &callers[ci][0];
            if !c.to_unconnected && c.timeout_ms != u64::MAX && c.timeout_ms > 10 {
                let s = r.below(c.start_delay_ms + 1);
                let delta = *r.pick(&[0u64, 1, 2, 3, 10, 30]);
                let dur = (c.start_delay_ms + c.timeout_ms).saturating_sub(delta + s).max(1);
                p.lock_holds.push((s, dur));
            }
        }
        p.callers = callers;
        if faults && r.chance(2, 3) {
            p.conn_fault = (*r.pick(&["peer_close", "peer_reset", "write_error", "local_close"])).to_string();
            p.conn_fault_at = if p.conn_fault == "write_error" { r.below(600) } else if p.conn_fault == "local_close" { r.below(300) } else { r.below(6) };
            p.conn_fault_delay_ms = r.below(50);
        }
        if p.calls_before_start == 0 && r.chance(1, 4) {
            p.other_calls = r.range(2, 8) as u32;
        }
        serde_json::to_value(p).unwrap()
    }

    fn run(&self, plan: &Value, tape: Tape, keep: bool) -> RunOutput {
        let p: Plan = match serde_json::from_value(plan.clone()) {
            Ok(p) => p,
            Err(_) => return RunOutput::default(),
        };
        // unbounded timeouts only where the generator puts them: fault-free runs, the peer answers
        if p.callers.iter().flatten().any(|c| c.timeout_ms == u64::MAX && (p.faults || !p.conn_fault.is_empty() || c.to_unconnected || !(c.reply == "normal" || c.reply == "twice"))) {
            return RunOutput::default();
        }
        if p.callers.is_empty() || p.callers.len() > 400 {
            return RunOutput::default();
        }
        let world = World::new(tape, keep, p.salt);
        let multi = p.callers.len() > 1;
        let ex = execute(&world, 6 * 3_600_000, |w| async move { scenario(&w, &p).await });
        finish(&world, &ex, multi)
    }

    fn info(&self) -> Info {
        Info {
            rule: "one run = 1..8 caller tasks x 1..4 rpc_call_raw_with_timeout on one real Node against a simulated rex that, per call, replies after a planned delay (well before / within a margin of / after the caller's timeout), twice, never, to an unknown pid, or re-sends an earlier call's reply; optionally one connection fault (peer close, peer reset, write error at a byte offset); optionally another user of the connection holding its mutex for 0.3..40 s while calls queue up; calls to a never-connected node; seeded yield points around the outstanding-call table steps; configuration A (no faults, strict outcome oracle) and B (faults, relaxed narrowly) drawn per run. Non-trivial = at least two caller tasks; distinct = distinct (transfer/yield sequence, event log).",
            components_real: &["edp_node::Node (rpc_call*, connect, receiver task, route_message)", "edp_client::Connection (handshake, send path, receive_message_from_read_half)", "edp_client::PidAllocator", "tokio oneshot/Mutex/timers (paused clock)", "dashmap"],
            components_stubbed: &["TCP (SimNet)", "EPMD (stub)", "remote node: handshake acceptor + rex model with an independent frame/term reader"],
            assumptions: &["the peer ticks every 5 simulated seconds so that the receiver's 10 s read timeout (a C19 question) does not interfere", "RpcTimeout is judged inadmissible only if a reply addressed to the call was written by the peer at least `margin` before the call returned (margin = injected network/yield delay bound)"],
            fault_prefixes: &["fault.", "net."],
            expected_probes: &["probe.c17.ok", "probe.c17.ok_with_unbounded_timeout", "probe.c17.unencodable_request_rejected", "probe.c17.old_reply_sent_again", "probe.c17.long_history", "probe.c17.reply_with_legacy_pid_tag", "probe.c17.timeout", "probe.c17.reply_after_timeout_dropped", "probe.c17.duplicate_reply_dropped", "probe.c17.unknown_pid_reply_dropped", "probe.c17.not_connected", "probe.c17.send_failed", "probe.c17.liveness_probe_ok", "probe.c17.counter_moved_to_wrap", "probe.c17.calls_before_start", "probe.c17.call_to_a_second_node_answered", "probe.c17.call_given_up_by_its_caller", "probe.c17.crowd_of_outstanding_calls", "probe.c17.answer_to_a_given_up_call_dropped"],
        }
    }
}

#[derive(Clone, Debug)]
struct Req {
    caller: i64,
    idx: i64,
    from: Val,
    t: u64,
}

#[derive(Clone, Debug)]
struct Rep {
    to: Val,
    content: Val,
    t_sent: u64,
}

fn origin_of(content: &Val) -> Option<(i64, i64)> {
    // {rex, {echo, Caller, Idx, Nonce}}
    let t = content.as_tuple()?;
    let e = t.get(1)?.as_tuple()?;
    Some((e.get(1)?.as_i64()?, e.get(2)?.as_i64()?))
}

#[derive(Clone, Debug)]
struct Res {
    caller: usize,
    idx: usize,
    t0: u64,
    t1: u64,
    ok: Option<Val>,
    err: String,
}

#[derive(Default)]
struct Shared {
    reqs: Vec<Req>,
    reps: Vec<Rep>,
    results: Vec<Res>,
    conn_fault_at_ms: Option<u64>,
    peer_problems: Vec<String>,
    nonce: u64,
    connected: bool,
    c2s: Option<crate::net::PipeCtl>,
    other_pids: Vec<Val>,
}

fn reply_frame(to: &Val, content: &Val) -> Vec<u8> {
    let ctl = Val::tuple(vec![Val::int(2), Val::atom(""), to.clone()]);
    wire::frame4(&wire::pass_through(&ctl, Some(content)))
}

async fn rex(w: Arc<World>, mut conn: ServerConn, p: Arc<Plan>, sh: Arc<Mutex<Shared>>) {
    {
        let mut g = sh.lock().unwrap();
        g.connected = true;
        g.c2s = Some(conn.c2s.clone());
    }
    // the handshake acknowledgement must have been consumed before any connection fault
    for _ in 0..10_000 {
        if conn.s2c.total_read() == conn.s2c.total_written() {
            break;
        }
        tokio::time::sleep(Duration::from_millis(1)).await;
    }
    if p.conn_fault == "write_error" {
        conn.c2s.fail_writes_after(conn.c2s.total_written() + p.conn_fault_at, std::io::ErrorKind::BrokenPipe);
    }
    let (tx, mut rx) = mpsc::unbounded_channel::<(Option<(Val, Val)>, Vec<u8>)>();
    let mut write = conn.write;
    let sh2 = sh.clone();
    let writer = tokio::spawn(async move {
        while let Some((meta, frame)) = rx.recv().await {
            if write.write_all(&frame).await.is_err() {
                break;
            }
            if let Some((to, content)) = meta {
                sh2.lock().unwrap().reps.push(Rep { to, content, t_sent: World::now_ms() });
            }
        }
        // keep `write` alive until the channel closes: dropping it is the peer's close
        drop(write);
    });
    // ticks
    let tick_tx = tx.clone();
    let ticker = tokio::spawn(async move {
        loop {
            tokio::time::sleep(Duration::from_secs(5)).await;
            if tick_tx.send((None, wire::frame4(&[]))).is_err() {
                break;
            }
        }
    });
    let mut cache = RecvCache::default();
    let mut n_reqs = 0u64;
    let mut last_reply: Option<(Val, Val)> = None;
    let mut old_replies: Vec<(Val, Val)> = Vec::new();
    loop {
        if (p.conn_fault == "peer_close" || p.conn_fault == "peer_reset") && n_reqs >= p.conn_fault_at {
            if p.conn_fault_delay_ms > 0 {
                tokio::time::sleep(Duration::from_millis(p.conn_fault_delay_ms)).await;
            }
            sh.lock().unwrap().conn_fault_at_ms = Some(World::now_ms());
            w.stat(&format!("fault.{}", p.conn_fault));
            w.ev(format!("peer: {} after {} requests", p.conn_fault, n_reqs));
            if p.conn_fault == "peer_reset" {
                conn.s2c.reset();
            }
            break;
        }
        let body = match read_frame4(&mut conn.read).await {
            Ok(b) => b,
            Err(_) => break,
        };
        if body.is_empty() {
            continue;
        }
        let msg = match wire::parse_dist_frame(&body, &mut cache) {
            Ok(m) => m,
            Err(e) => {
                sh.lock().unwrap().peer_problems.push(format!("unreadable frame from the node: {} ({})", e, wire::hex(&body)));
                continue;
            }
        };
        // {6, From, '', rex} + {From, {call, m, f, [Caller, Idx], user}}
        let parsed = (|| {
            let c = msg.control.as_tuple()?;
            if c.len() != 4 || c[0].as_i64()? != 6 || c[3] != Val::atom("rex") {
                return None;
            }
            let from = c[1].clone();
            let pl = msg.payload.as_ref()?.as_tuple()?;
            if pl.len() != 2 || pl[0] != from {
                return None;
            }
            let call = pl[1].as_tuple()?;
            if call.len() != 5 || call[0] != Val::atom("call") {
                return None;
            }
            let (caller, idx) = match &call[3] {
                Val::List(els, _) if els.len() == 2 => (els[0].as_i64()?, els[1].as_i64()?),
                _ => return None,
            };
            Some((from, caller, idx))
        })();
        let Some((from, caller, idx)) = parsed else {
            sh.lock().unwrap().peer_problems.push(format!("request is not a rex call: {} / {:?}", msg.control.short(), msg.payload.as_ref().map(|v| v.short())));
            continue;
        };
        n_reqs += 1;
        w.ev(format!("peer: request caller={} idx={} from={:?}", caller, idx, from));
        w.sig(0x4e0 ^ (caller as u64) << 8 ^ idx as u64);
        sh.lock().unwrap().reqs.push(Req { caller, idx, from: from.clone(), t: World::now_ms() });
        let spec = if caller == 999 || caller == 998 {
            CallSpec { reply: "normal".into(), ..Default::default() }
        } else {
            p.callers.get(caller as usize).and_then(|c| c.get(idx as usize)).cloned().unwrap_or_default()
        };
        let mut sends: Vec<(u64, Val, Val)> = Vec::new();
        let nonce = || {
            let mut g = sh.lock().unwrap();
            g.nonce += 1;
            g.nonce
        };
        let content = |n: u64| Val::tuple(vec![Val::atom("rex"), Val::tuple(vec![Val::atom("echo"), Val::int(caller as i128), Val::int(idx as i128), Val::int(n as i128)])]);
        match spec.reply.as_str() {
            "never" => {}
            "twice" => {
                sends.push((spec.delay_ms, from.clone(), content(nonce())));
                sends.push((spec.delay_ms + u64::from(w.draw(20)), from.clone(), content(nonce())));
            }
            "unknown_pid" => {
                // nobody's identifier, now or later in this run (a run wraps the counter a few dozen times at most):
                // far away, or differing from the caller's in one field only
                let ghost = match &from {
                    Val::Pid { node, id, serial, creation } => match w.draw(4) {
                        3 if *creation != 0 => Val::Pid { node: node.clone(), id: *id, serial: *serial, creation: 0 },
                        0 => Val::Pid { node: node.clone(), id: id.wrapping_add(500_000), serial: *serial, creation: *creation },
                        1 => Val::Pid { node: node.clone(), id: *id, serial: serial.wrapping_add(1000), creation: *creation },
                        _ => Val::Pid { node: node.clone(), id: *id, serial: *serial, creation: creation.wrapping_add(1) },
                    },
                    other => other.clone(),
                };
                sends.push((spec.delay_ms, ghost, content(nonce())));
            }
            "resend_old" => {
                // any earlier reply of this connection, again, addressed as it was the first time
                if !old_replies.is_empty() {
                    let (to, c) = old_replies[w.draw(old_replies.len() as u32) as usize].clone();
                    sends.push((0, to, c));
                    w.stat("probe.c17.old_reply_sent_again");
                }
                sends.push((spec.delay_ms, from.clone(), content(nonce())));
            }
            "resend_earlier" => {
                if let Some((to, c)) = last_reply.clone() {
                    sends.push((u64::from(w.draw(10)), to, c));
                }
                sends.push((spec.delay_ms, from.clone(), content(nonce())));
            }
            _ => sends.push((spec.delay_ms, from.clone(), content(nonce()))),
        }
        for (delay, to, c) in sends {
            if to == from {
                last_reply = Some((to.clone(), c.clone()));
                old_replies.push((to.clone(), c.clone()));
            }
            let tx = tx.clone();
            let legacy = p.legacy_ids;
            if legacy {
                w.stat("probe.c17.reply_with_legacy_pid_tag");
            }
            tokio::spawn(async move {
                if delay > 0 {
                    tokio::time::sleep(Duration::from_millis(delay)).await;
                }
                let frame = wire::with_legacy_ids(legacy, || reply_frame(&to, &c));
                let _ = tx.send((Some((to, c)), frame));
            });
        }
    }
    ticker.abort();
    writer.abort();
    drop(conn.read);
}

async fn scenario(w: &Arc<World>, p: &Plan) {
    let p = Arc::new(p.clone());
    let sh = Arc::new(Mutex::new(Shared::default()));
    let (p2, sh2) = (p.clone(), sh.clone());
    install_conforming_peer(
        w,
        NetCfg { client: p.client.clone(), server: p.server.clone(), cap: p.cap as usize },
        OTP_FLAGS_BASE,
        move |w, conn, _seen| Box::pin(rex(w, conn, p2.clone(), sh2.clone())),
    );
    let node = if p.calls_before_start > 0 {
        // connect and call first, start afterwards; EPMD assigns the creation the node already has
        crate::peer::install_epmd(w, 1, "peer", 5555, false);
        let mut node = edp_node::Node::new(crate::nodeenv::SUT_NAME, crate::nodeenv::COOKIE);
        if let Err(e) = node.connect(PEER_NAME).await {
            w.violation("HARNESS-setup", format!("connect before start failed: {}", e));
            return;
        }
        for k in 0..p.calls_before_start {
            let r = node.rpc_call_raw_with_timeout(PEER_NAME, "m", "f", vec![OwnedTerm::Integer(998), OwnedTerm::Integer(i64::from(k))], Duration::from_millis(5000 + margin_ms(&p))).await;
            w.ev(format!("call before start {} -> {}", k, if r.is_ok() { "Ok".to_string() } else { r.unwrap_err().to_string() }));
        }
        if let Err(e) = node.start(0).await {
            w.violation("HARNESS-setup", format!("Node::start failed: {}", e));
            return;
        }
        w.stat("probe.c17.calls_before_start");
        Arc::new(node)
    } else {
        let node = match start_node(w, if p.creation == 0 { 3 } else { p.creation }).await {
            Ok(n) => Arc::new(n),
            Err(e) => {
                w.violation("HARNESS-setup", e);
                return;
            }
        };
        if let Err(e) = node.connect(PEER_NAME).await {
            w.violation("HARNESS-setup", format!("connect to the conforming peer failed: {}", e));
            return;
        }
        if p.other_calls > 0 {
            install_conforming_peer_at(w, OTHER_ADDR, OTHER_NAME, NetCfg { client: p.client.clone(), server: p.server.clone(), cap: 0 }, OTP_FLAGS_BASE, move |w, conn, _seen| Box::pin(other_rex(w, conn)));
            if let Err(e) = node.connect(OTHER_NAME).await {
                w.violation("HARNESS-setup", format!("connect to the second node failed: {}", e));
                return;
            }
        }
        node
    };
    if p.calls_before_start > 0 {
        // a process spawned after start gets an identifier too: it must differ from every reply identifier
        struct Idle;
        impl edp_node::Process for Idle {
            async fn handle_message(&mut self, _m: edp_node::Message) -> edp_node::Result<()> {
                Ok(())
            }
        }
        if let Ok(pid) = node.spawn(Idle).await {
            sh.lock().unwrap().other_pids.push(crate::conv::pid_val(&pid));
        }
    }
    w.set_yield_cfg(YieldCfg { intensity: p.yield_intensity, site_mask: p.yield_mask, max_sleep_ms: p.yield_sleep_ms });

    if p.callers.iter().any(|c| c.len() >= 64) {
        w.stat("probe.c17.long_history");
    }
    if p.callers.len() >= 100 {
        w.stat("probe.c17.crowd_of_outstanding_calls");
    }
    let mut tasks = Vec::new();
    for (start, dur) in p.lock_holds.iter().copied() {
        let node = node.clone();
        let w = w.clone();
        tasks.push(tokio::spawn(async move {
            tokio::time::sleep(Duration::from_millis(start)).await;
            let conn = node.connections().get(PEER_NAME).map(|e| Arc::clone(e.value()));
            if let Some(conn) = conn {
                let guard = conn.lock().await;
                w.stat("fault.connection_mutex_held");
                w.ev(format!("connection mutex held for {}ms from {}ms", dur, World::now_ms()));
                tokio::time::sleep(Duration::from_millis(dur)).await;
                drop(guard);
            }
        }));
    }
    if p.conn_fault == "local_close" {
        // the application closes the listed connection itself (through the handle Node::connections() gives out);
        // the entry stays listed, calls made from then on fail, and none of them leaves anything behind
        let (node, w, sh, at) = (node.clone(), w.clone(), sh.clone(), p.conn_fault_at);
        tasks.push(tokio::spawn(async move {
            tokio::time::sleep(Duration::from_millis(at)).await;
            let conn = node.connections().get(PEER_NAME).map(|e| Arc::clone(e.value()));
            if let Some(conn) = conn {
                let mut g = conn.lock().await;
                sh.lock().unwrap().conn_fault_at_ms = Some(World::now_ms());
                let _ = g.close().await;
                w.stat("fault.connection_closed_locally");
                w.ev(format!("listed connection closed by the application at {}ms", World::now_ms()));
            }
        }));
    }
    if p.other_calls > 0 {
        // calls to the second node: its stream has no faults and it answers every call at once, so each of
        // them returns its own answer whatever happens on the first connection meanwhile
        let (node, w, n, m) = (node.clone(), w.clone(), p.other_calls, margin_ms(&p));
        tasks.push(tokio::spawn(async move {
            for k in 0..n {
                tokio::time::sleep(Duration::from_millis(u64::from(w.draw(30)))).await;
                let r = node.rpc_call_raw_with_timeout(OTHER_NAME, "m", "f", vec![OwnedTerm::Integer(777), OwnedTerm::Integer(i64::from(k))], Duration::from_millis(20_000 + 4 * m)).await;
                let want = Val::tuple(vec![Val::atom("rex"), Val::tuple(vec![Val::atom("other_echo"), Val::int(i128::from(k))])]);
                match r {
                    Ok(v) if to_val(&v) == want => w.stat("probe.c17.call_to_a_second_node_answered"),
                    Ok(v) => w.violation("wrong-reply", format!("call {} to the second node returned {} instead of that node's answer to it", k, to_val(&v).short())),
                    Err(e) => w.violation("unexpected-error", format!("call {} to the second node (intact stream, answers at once) failed with {}", k, classify(&e))),
                }
            }
        }));
    }
    for (ci, calls) in p.callers.iter().enumerate() {
        let node = node.clone();
        let calls = calls.clone();
        let sh = sh.clone();
        let w = w.clone();
        tasks.push(tokio::spawn(async move {
            for (ix, c) in calls.iter().enumerate() {
                if c.start_delay_ms > 0 {
                    tokio::time::sleep(Duration::from_millis(c.start_delay_ms)).await;
                }
                let target = if c.to_unconnected { "ghost@nowhere" } else { PEER_NAME };
                if c.jump_to_wrap > 0 {
                    let a = node.verif_pid_allocator();
                    let cur = a.next_id_test_only().load(std::sync::atomic::Ordering::SeqCst);
                    let want = 1_048_576u32 - (c.jump_to_wrap - 1);
                    // only ever forward within the current cycle
                    if cur < want {
                        a.next_id_test_only().store(want, std::sync::atomic::Ordering::SeqCst);
                        w.stat("probe.c17.counter_moved_to_wrap");
                    }
                }
                let t0 = World::now_ms();
                let mut args = vec![OwnedTerm::Integer(ci as i64), OwnedTerm::Integer(ix as i64)];
                if c.unencodable {
                    args.push(OwnedTerm::Atom(erltf::types::Atom::new("x".repeat(70_000))));
                }
                let call = node.rpc_call_raw_with_timeout(target, "m", "f", args, if c.timeout_ms == u64::MAX { Duration::MAX } else { Duration::from_millis(c.timeout_ms) });
                let r = if c.abandon_ms > 0 {
                    // the future is dropped only once the peer holds the whole request: giving a call up while its
                    // frame is half written is a question about the send path, not about the call table
                    let sh = sh.clone();
                    let give_up = async {
                        loop {
                            if sh.lock().unwrap().reqs.iter().any(|q| q.caller == ci as i64 && q.idx == ix as i64) {
                                break;
                            }
                            tokio::time::sleep(Duration::from_millis(1)).await;
                        }
                        tokio::time::sleep(Duration::from_millis(c.abandon_ms)).await;
                    };
                    tokio::pin!(call);
                    tokio::select! {
                        biased;
                        r = &mut call => Some(r),
                        _ = give_up => None,
                    }
                } else {
                    Some(call.await)
                };
                let t1 = World::now_ms();
                let (ok, err) = match &r {
                    Some(Ok(v)) => (Some(to_val(v)), String::new()),
                    Some(Err(e)) => (None, classify(e)),
                    None => {
                        w.stat("probe.c17.call_given_up_by_its_caller");
                        (None, "Abandoned".to_string())
                    }
                };
                w.ev(format!("caller {} call {} -> {} at {}ms", ci, ix, if ok.is_some() { "Ok".to_string() } else { err.clone() }, t1));
                w.sig(0xca11 ^ (ci as u64) << 8 ^ ix as u64);
                sh.lock().unwrap().results.push(Res { caller: ci, idx: ix, t0, t1, ok, err });
            }
        }));
    }
    for t in tasks {
        if t.await.is_err() {
            w.violation("panic", "a caller task panicked".to_string());
        }
    }
    // quiescence: longer than every planned delay
    let max_delay = p.callers.iter().flatten().map(|c| c.delay_ms).max().unwrap_or(0);
    tokio::time::sleep(Duration::from_millis(max_delay + margin_ms(&p) + 500)).await;
    w.set_yield_cfg(YieldCfg::default());

    let left = node.verif_pending_rpcs_len();
    // A call given up by its caller has not returned; what the statement says about bookkeeping is about calls
    // that have. Its entry may stay until an answer addressed to it comes in (counted, not judged).
    let may_stay = {
        let g = sh.lock().unwrap();
        g.results
            .iter()
            .filter(|r| r.err == "Abandoned")
            .filter(|r| {
                let from = g.reqs.iter().find(|q| q.caller == r.caller as i64 && q.idx == r.idx as i64).map(|q| q.from.clone());
                match from {
                    Some(f) => !p.conn_fault.is_empty() || !g.reps.iter().any(|x| x.to == f && x.t_sent > r.t1),
                    None => true,
                }
            })
            .count()
    };
    if left > may_stay {
        w.violation("rpc-entry-leaked", format!("{} outstanding-call entries remain after every call returned ({} of them may belong to calls given up by their callers and never answered; conn_fault={:?})", left, may_stay, p.conn_fault));
    } else if left > 0 {
        w.stat("c17.entry_of_a_given_up_call_left_behind");
    }
    evaluate(w, &p, &sh);

    // bounded liveness once faults have stopped: a fresh call on a healthy connection completes
    let healthy = p.conn_fault.is_empty() && node.connections().contains_key(PEER_NAME);
    if healthy {
        let r = node.rpc_call_raw_with_timeout(PEER_NAME, "m", "f", vec![OwnedTerm::Integer(999), OwnedTerm::Integer(0)], Duration::from_millis(5000 + margin_ms(&p))).await;
        match r {
            Ok(_) => w.stat("probe.c17.liveness_probe_ok"),
            Err(e) => w.violation("liveness", format!("after all faults stopped a fresh call on the still-registered connection failed: {}", e)),
        }
        if node.verif_pending_rpcs_len() > may_stay {
            w.violation("rpc-entry-leaked", "entry left after the liveness probe".to_string());
        }
    }
}

/// The second node: answers every call with {rex, {other_echo, K}} (K = the call's second argument).
async fn other_rex(w: Arc<World>, conn: ServerConn) {
    let ServerConn { mut read, mut write, .. } = conn;
    let mut cache = RecvCache::default();
    loop {
        let Ok(body) = read_frame4(&mut read).await else { break };
        if body.is_empty() {
            continue;
        }
        let Ok(msg) = wire::parse_dist_frame(&body, &mut cache) else { continue };
        let Some(c) = msg.control.as_tuple() else { continue };
        if c.len() == 4 && c[0].as_i64() == Some(6) {
            let args = msg.payload.as_ref().and_then(|p| p.as_tuple()).and_then(|t| t.get(1)).and_then(|c| c.as_tuple()).and_then(|c| c.get(3)).cloned();
            let k = match &args {
                Some(Val::List(els, _)) => els.get(1).cloned().unwrap_or(Val::Nil),
                _ => Val::Nil,
            };
            let d = w.draw(20);
            if d > 0 {
                tokio::time::sleep(Duration::from_millis(u64::from(d))).await;
            }
            let pl = Val::tuple(vec![Val::atom("rex"), Val::tuple(vec![Val::atom("other_echo"), k])]);
            if write.write_all(&wire::frame4(&wire::pass_through(&Val::tuple(vec![Val::int(2), Val::atom(""), c[1].clone()]), Some(&pl)))).await.is_err() {
                break;
            }
        }
    }
}

fn classify(e: &edp_node::Error) -> String {
    // whichever variant carries it, a call that gave up waiting is a timeout
    let text = e.to_string().to_lowercase();
    if !matches!(e, edp_node::Error::RpcTimeout(_) | edp_node::Error::Client(_)) && (text.contains("timeout") || text.contains("timed out")) {
        return "RpcTimeout".into();
    }
    match e {
        edp_node::Error::RpcTimeout(_) => "RpcTimeout".into(),
        edp_node::Error::RpcCancelled => "RpcCancelled".into(),
        edp_node::Error::NodeNotConnected(_) => "NodeNotConnected".into(),
        edp_node::Error::Client(c) => format!("Client({})", c),
        other => format!("Other({})", other),
    }
}

fn evaluate(w: &Arc<World>, p: &Plan, sh: &Arc<Mutex<Shared>>) {
    let g = sh.lock().unwrap();
    let m = margin_ms(p);
    for pr in &g.peer_problems {
        w.violation("request-malformed", pr.clone());
    }
    // every call uses a fresh reply identifier, distinct from every other identifier the node handed out
    {
        let mut seen: Vec<&Val> = g.other_pids.iter().collect();
        for q in &g.reqs {
            if seen.contains(&&q.from) {
                w.violation("reply-identifier-reused", format!("the request of caller {} call {} carries reply identifier {:?}, which the node had already handed out", q.caller, q.idx, q.from));
                break;
            }
            seen.push(&q.from);
        }
    }
    let mut returned: Vec<&Val> = Vec::new();
    for r in &g.results {
        let spec = &p.callers[r.caller][r.idx];
        let req = g.reqs.iter().find(|q| q.caller == r.caller as i64 && q.idx == r.idx as i64);
        let write_fault_at = g.c2s.as_ref().and_then(|c| c.write_failed_at_ms());
        let fault_before = g.conn_fault_at_ms.map(|t| t <= r.t1).unwrap_or(false) || write_fault_at.map(|t| t <= r.t1).unwrap_or(false);
        match (&r.ok, r.err.as_str()) {
            (Some(_), _) if spec.unencodable => {
                w.violation("unencodable-accepted", format!("caller {} call {}: a request with an atom of 70000 bytes returned Ok", r.caller, r.idx));
            }
            (Some(v), _) => {
                w.stat("probe.c17.ok");
                if spec.timeout_ms == u64::MAX {
                    w.stat("probe.c17.ok_with_unbounded_timeout");
                }
                let Some(req) = req else {
                    w.violation("reply-from-nowhere", format!("caller {} call {} returned Ok({}) although the peer never saw its request", r.caller, r.idx, v.short()));
                    continue;
                };
                let addressed: Vec<&Rep> = g.reps.iter().filter(|x| x.to == req.from).collect();
                if origin_of(v) != Some((r.caller as i64, r.idx as i64)) {
                    w.violation("wrong-reply", format!("caller {} call {} returned {} which the peer produced in answer to call {:?}", r.caller, r.idx, v.short(), origin_of(v)));
                } else if !addressed.iter().any(|x| &x.content == v) {
                    let owner = g.reps.iter().find(|x| &x.content == v).map(|x| format!("{:?}", x.to));
                    w.violation("wrong-reply", format!("caller {} call {} (reply pid {:?}) returned {} which the peer addressed to {:?}", r.caller, r.idx, req.from, v.short(), owner));
                }
                if returned.contains(&v) {
                    w.violation("reply-delivered-twice", format!("reply {} was returned to two calls", v.short()));
                }
                returned.push(v);
                if addressed.len() > 1 {
                    w.stat("probe.c17.duplicate_reply_dropped");
                }
            }
            (None, "RpcTimeout") => {
                w.stat("probe.c17.timeout");
                if let Some(req) = req {
                    // (a reply written before the call began cannot have been meant for it)
                    let early: Vec<&Rep> = g.reps.iter().filter(|x| x.to == req.from && x.t_sent >= r.t0 && x.t_sent + m <= r.t1.saturating_sub(m)).collect();
                    if !early.is_empty() && !fault_before {
                        w.violation("timeout-despite-reply", format!("caller {} call {} timed out at {}ms although the peer wrote its reply at {}ms (margin {}ms)", r.caller, r.idx, r.t1, early[0].t_sent, m));
                    }
                    if g.reps.iter().any(|x| x.to == req.from && x.t_sent > r.t1) {
                        w.stat("probe.c17.reply_after_timeout_dropped");
                    }
                    if spec.reply == "unknown_pid" {
                        w.stat("probe.c17.unknown_pid_reply_dropped");
                    }
                }
                if r.t1 < r.t0.saturating_add(spec.timeout_ms) {
                    w.violation("early-timeout", format!("caller {} call {} reported RpcTimeout after {}ms with a timeout of {}ms", r.caller, r.idx, r.t1 - r.t0, spec.timeout_ms));
                }
            }
            (None, "Abandoned") => {
                // nothing to judge about the call itself; its answer, if one comes, must reach nobody (checked where
                // other calls return: wrong-reply, reply-delivered-twice)
                if let Some(req) = req {
                    if g.reps.iter().any(|x| x.to == req.from && x.t_sent > r.t1) {
                        w.stat("probe.c17.answer_to_a_given_up_call_dropped");
                    }
                }
            }
            (None, "NodeNotConnected") => {
                w.stat("probe.c17.not_connected");
                if !spec.to_unconnected && !fault_before {
                    w.violation("not-connected-while-connected", format!("caller {} call {} got NodeNotConnected at {}ms; no connection fault had occurred", r.caller, r.idx, r.t1));
                }
            }
            (None, _) if spec.unencodable && req.is_none() => {
                w.stat("probe.c17.unencodable_request_rejected");
            }
            (None, other) => {
                w.stat("probe.c17.send_failed");
                if !fault_before {
                    w.violation("unexpected-error", format!("caller {} call {} failed with {} without any fault", r.caller, r.idx, other));
                }
            }
        }
    }
}
