//! C16, node-level half: every identifier a `Node` hands out over a history
//! (process identifiers from spawn, reply identifiers of remote calls as the
//! peer sees them, references from monitor) is distinct from every other and
//! carries the creation in force when it was made. The thread-interleaving half
//! runs under shuttle in /verif/c16_shuttle; this half covers the paths that need
//! a started node, EPMD and a peer (calls before start, failed and timed-out
//! calls, failing monitors), on the simulated network.

use crate::conv::{pid_val, ref_val, to_pid};
use crate::core::{Rng, Tape, World, YieldCfg, execute};
use crate::net::EndCfg;
use crate::nodeenv::{COOKIE, PEER_NAME, SUT_NAME, install_conforming_peer};
use crate::peer::{NetCfg, OTP_FLAGS_BASE, ServerConn, read_frame4};
use crate::runner::{Info, RunOutput, Scenario, Tier, finish};
use crate::wire::{self, RecvCache, Val};
use edp_node::{Message, Node, Process};
use erltf::OwnedTerm;
use serde::{Deserialize, Serialize};
use serde_json::Value;
use std::sync::{Arc, Mutex};
use std::time::Duration;
use tokio::io::AsyncWriteExt;

#[derive(Clone, Debug, Serialize, Deserialize, Default)]
struct Op {
    /// spawn | rpc_ok | rpc_timeout | rpc_unconnected | monitor_local | monitor_remote | monitor_unconnected | unlink_remote | send_remote
    kind: String,
    #[serde(default)]
    pause_ms: u32,
}

#[derive(Clone, Debug, Serialize, Deserialize, Default)]
struct Plan {
    #[serde(default)]
    epmd_creation: u32,
    /// legacy two-byte ALIVE2_RESP instead of ALIVE2_X_RESP
    #[serde(default)]
    epmd_legacy: bool,
    /// the node is built with Node::new_hidden
    #[serde(default)]
    hidden: bool,
    /// EPMD's replies arrive a byte at a time
    #[serde(default)]
    epmd_choppy: bool,
    /// start() is called a second time on the started node: refused, and nothing about the node changes
    #[serde(default)]
    start_twice: bool,
    /// operations issued before Node::start (only those that do not need a started node)
    #[serde(default)]
    before_start: Vec<Op>,
    #[serde(default)]
    tasks: Vec<Vec<Op>>,
    /// move the process-number counter to just before its wrap first
    #[serde(default)]
    near_wrap: u32,
    /// the client's socket fails writes after this many bytes (0 = never)
    #[serde(default)]
    write_error_after: u32,
    #[serde(default)]
    yield_intensity: u32,
    #[serde(default)]
    yield_mask: u64,
    #[serde(default)]
    salt: u64,
}

pub struct C16N;

fn gen_ops(r: &mut Rng, n: usize, started: bool) -> Vec<Op> {
    let kinds: &[&str] = if started {
        &["spawn", "spawn", "rpc_ok", "rpc_ok", "rpc_timeout", "rpc_timeout", "rpc_unconnected", "monitor_local", "monitor_remote", "monitor_unconnected", "unlink_remote", "send_remote"]
    } else {
        &["rpc_ok", "rpc_timeout", "rpc_unconnected", "monitor_remote", "monitor_unconnected", "unlink_remote", "send_remote"]
    };
    (0..n).map(|_| Op { kind: (*r.pick(kinds)).to_string(), pause_ms: *r.pick(&[0u32, 0, 1, 5]) }).collect()
}

impl Scenario for C16N {
    fn id(&self) -> &'static str {
        "C16"
    }

    fn evidence_name(&self) -> &'static str {
        "C16-node"
    }

    fn cli_name(&self) -> &'static str {
        "C16N"
    }

    fn runs(&self, tier: Tier) -> u64 {
        match tier {
            Tier::Quick => 40_000,
            Tier::Thorough => 1_500_000,
        }
    }

    fn gen_plan(&self, r: &mut Rng, _tier: Tier, _index: u64) -> Value {
        let n_before = if r.chance(1, 3) { r.range(1, 4) as usize } else { 0 };
        let n_tasks = r.range(1, 4) as usize;
        let p = Plan {
            // the node starts life with creation 1; EPMD may hand out the same value again
            epmd_creation: *r.pick(&[1u32, 1, 2, 3, 0xffff, 70_000, u32::MAX]),
            epmd_legacy: r.chance(1, 3),
            hidden: r.chance(1, 3),
            epmd_choppy: r.chance(1, 3),
            start_twice: r.chance(1, 4),
            before_start: gen_ops(r, n_before, false),
            tasks: (0..n_tasks).map(|_| { let n = r.range(1, 8) as usize; gen_ops(r, n, true) }).collect(),
            near_wrap: if r.chance(1, 4) { r.range(1, 6) as u32 } else { 0 },
            write_error_after: if r.chance(1, 5) { r.range(1, 900) as u32 } else { 0 },
            yield_intensity: *r.pick(&[0u32, 4, 10]),
            yield_mask: r.next_u64() | r.next_u64(),
            salt: r.next_u64(),
        };
        let mut p = p;
        if r.chance(1, 6) {
            // one call that fails after a lap of the number space went by while it waited for the connection
            let t = r.below(p.tasks.len() as u64) as usize;
            let at = r.below(p.tasks[t].len() as u64 + 1) as usize;
            p.tasks[t].insert(at, Op { kind: "rpc_fails_after_a_lap".to_string(), pause_ms: 0 });
        }
        serde_json::to_value(p).unwrap()
    }

    fn run(&self, plan: &Value, tape: Tape, keep: bool) -> RunOutput {
        let p: Plan = match serde_json::from_value(plan.clone()) {
            Ok(p) => p,
            Err(_) => return RunOutput::default(),
        };
        if p.tasks.len() > 8 {
            return RunOutput::default();
        }
        let world = World::new(tape, keep, p.salt);
        let nontrivial = !p.before_start.is_empty() || p.tasks.len() > 1;
        let ex = execute(&world, 6 * 3_600_000, |w| async move { scenario(&w, &p).await });
        finish(&world, &ex, nontrivial)
    }

    fn info(&self) -> Info {
        Info {
            rule: "one run = one Node's history on the simulated network: optionally a few remote calls / monitors / unlinks BEFORE Node::start (legal), start against an EPMD stub that hands out creation 1 (the value the node already had) or another value (2-byte or 4-byte reply), then 1..4 tasks spawning processes, making remote calls that succeed, time out or cannot be sent, monitoring local, remote and unreachable processes, unlinking; optionally the process-number counter is first moved to just before its 2^20 wrap and the socket fails writes after some bytes. Oracle: every process identifier returned by spawn, every reply identifier the peer sees in a request, and every reference returned or seen on the wire is distinct from all others, and carries the creation in force when it was made. Non-trivial = calls before start or several tasks.",
            components_real: &["edp_node::Node (new, start, connect, spawn, rpc_call*, monitor, unlink, send, make_reference)", "edp_client::PidAllocator (allocate, set_creation)", "edp_client::epmd_client (register_node)", "connection/handshake/send path"],
            components_stubbed: &["TCP (SimNet)", "EPMD (stub)", "remote node (records the identifiers it sees; answers or ignores calls)"],
            assumptions: &["thread-level interleavings inside allocate()/make_reference() are explored by the shuttle half of this check, not here (one runtime thread per run)"],
            fault_prefixes: &["fault.", "net."],
            expected_probes: &["probe.c16n.calls_before_start", "probe.c16n.same_creation_from_epmd", "probe.c16n.rpc_timed_out", "probe.c16n.rpc_send_failed", "probe.c16n.monitor_failed", "probe.c16n.crossed_wrap", "probe.c16n.spawned"],
        }
    }
}

struct Idle;
impl Process for Idle {
    async fn handle_message(&mut self, _m: Message) -> edp_node::Result<()> {
        Ok(())
    }
}

#[derive(Default)]
struct Seen {
    /// (what, identifier, creation expected at the time it was made)
    pids: Vec<(String, Val)>,
    refs: Vec<(String, Val)>,
}

async fn peer(_w: Arc<World>, mut conn: ServerConn, seen: Arc<Mutex<Seen>>, write_error_after: u32) {
    if write_error_after > 0 {
        conn.c2s.fail_writes_after(conn.c2s.total_written() + u64::from(write_error_after), std::io::ErrorKind::BrokenPipe);
    }
    let mut cache = RecvCache::default();
    loop {
        let Ok(body) = read_frame4(&mut conn.read).await else { break };
        if body.is_empty() {
            continue;
        }
        let Ok(msg) = wire::parse_dist_frame(&body, &mut cache) else { continue };
        let Some(c) = msg.control.as_tuple() else { continue };
        match c.first().and_then(|v| v.as_i64()) {
            Some(6) if c.len() == 4 => {
                // REG_SEND to rex: the reply identifier is on the wire now
                seen.lock().unwrap().pids.push(("reply identifier in a request".to_string(), c[1].clone()));
                let wants_reply = msg
                    .payload
                    .as_ref()
                    .and_then(|p| p.as_tuple())
                    .and_then(|t| t.get(1))
                    .and_then(|c| c.as_tuple())
                    .and_then(|c| c.get(3))
                    .map(|a| matches!(a, Val::List(els, _) if els.first().and_then(|v| v.as_i64()) == Some(1)))
                    .unwrap_or(false);
                if wants_reply {
                    let pl = Val::tuple(vec![Val::atom("rex"), Val::atom("ok")]);
                    let f = wire::frame4(&wire::pass_through(&Val::tuple(vec![Val::int(2), Val::atom(""), c[1].clone()]), Some(&pl)));
                    if conn.write.write_all(&f).await.is_err() {
                        break;
                    }
                }
            }
            Some(19) if c.len() == 4 => {
                seen.lock().unwrap().refs.push(("reference in a MONITOR_P frame".to_string(), c[3].clone()));
            }
            _ => {}
        }
    }
}

async fn do_op(w: &Arc<World>, node: &Node, op: &Op, me: &Val, seen: &Arc<Mutex<Seen>>, locals: &Arc<Mutex<Vec<Val>>>) {
    if op.pause_ms > 0 {
        tokio::time::sleep(Duration::from_millis(u64::from(op.pause_ms))).await;
    }
    let remote = Val::Pid { node: PEER_NAME.to_string(), id: 77, serial: 0, creation: 9 };
    let nowhere = Val::Pid { node: "ghost@nowhere".to_string(), id: 1, serial: 0, creation: 1 };
    let me_e = to_pid(me).unwrap();
    match op.kind.as_str() {
        "spawn" => {
            if let Ok(pid) = node.spawn(Idle).await {
                w.stat("probe.c16n.spawned");
                let v = pid_val(&pid);
                locals.lock().unwrap().push(v.clone());
                seen.lock().unwrap().pids.push(("process identifier from spawn".to_string(), v));
            }
        }
        "rpc_ok" | "rpc_timeout" => {
            let flag = if op.kind == "rpc_ok" { 1 } else { 0 };
            let r = node.rpc_call_raw_with_timeout(PEER_NAME, "m", "f", vec![OwnedTerm::Integer(flag)], Duration::from_millis(40)).await;
            match r {
                Err(edp_node::Error::RpcTimeout(_)) => w.stat("probe.c16n.rpc_timed_out"),
                Err(edp_node::Error::Client(_)) => w.stat("probe.c16n.rpc_send_failed"),
                _ => {}
            }
        }
        "rpc_fails_after_a_lap" => {
            // A call has taken its reply identifier and waits for the connection's mutex; meanwhile exactly one lap of
            // the number space goes by (moved there through the allocator's accessors, the last step of the lap made
            // for real by a spawn); then the call cannot be sent. Whatever the failing call does with its
            // identifier, the identifiers handed out afterwards are new.
            let conn = node.connections().get(PEER_NAME).map(|e| Arc::clone(e.value()));
            let Some(conn) = conn else { return };
            let mut guard = conn.lock().await;
            let a = node.verif_pid_allocator();
            let before = a.next_id_test_only().load(std::sync::atomic::Ordering::SeqCst);
            let call = node.rpc_call_raw_with_timeout(PEER_NAME, "m", "f", vec![OwnedTerm::Integer(0)], Duration::from_millis(40));
            let lap = async {
                tokio::time::sleep(Duration::from_millis(1)).await;
                let now = a.next_id_test_only().load(std::sync::atomic::Ordering::SeqCst);
                if now == before + 1 && before >= 1 {
                    // only the waiting call has allocated since: (before, s) is its identifier
                    a.next_id_test_only().store(before, std::sync::atomic::Ordering::SeqCst);
                    a.next_serial_test_only().fetch_add(1, std::sync::atomic::Ordering::SeqCst);
                    if let Ok(pid) = node.spawn(Idle).await {
                        seen.lock().unwrap().pids.push(("process identifier from spawn (last step of a lap)".to_string(), pid_val(&pid)));
                        w.stat("probe.c16n.a_lap_went_by_while_a_call_waited");
                    }
                }
                let _ = guard.close().await;
                drop(guard);
            };
            let (r, _) = tokio::join!(call, lap);
            if r.is_err() {
                w.stat("probe.c16n.rpc_send_failed");
            }
            for _ in 0..2 {
                if let Ok(pid) = node.spawn(Idle).await {
                    seen.lock().unwrap().pids.push(("process identifier from spawn".to_string(), pid_val(&pid)));
                }
            }
        }
        "rpc_unconnected" => {
            let _ = node.rpc_call_raw_with_timeout("ghost@nowhere", "m", "f", vec![], Duration::from_millis(10)).await;
        }
        "monitor_local" => {
            let target = locals.lock().unwrap().last().cloned();
            if let Some(t) = target {
                if let Ok(r) = node.monitor(&me_e, &to_pid(&t).unwrap()).await {
                    seen.lock().unwrap().refs.push(("reference returned by monitor (local)".to_string(), ref_val(&r)));
                }
            }
        }
        "monitor_remote" => match node.monitor(&me_e, &to_pid(&remote).unwrap()).await {
            Ok(r) => seen.lock().unwrap().refs.push(("reference returned by monitor (remote)".to_string(), ref_val(&r))),
            Err(_) => w.stat("probe.c16n.monitor_failed"),
        },
        "monitor_unconnected" => {
            if node.monitor(&me_e, &to_pid(&nowhere).unwrap()).await.is_err() {
                w.stat("probe.c16n.monitor_failed");
            }
        }
        "unlink_remote" => {
            let _ = node.unlink(&me_e, &to_pid(&remote).unwrap()).await;
        }
        _ => {
            let _ = node.send(&to_pid(&remote).unwrap(), OwnedTerm::Nil).await;
        }
    }
}

async fn scenario(w: &Arc<World>, p: &Plan) {
    let seen = Arc::new(Mutex::new(Seen::default()));
    let locals: Arc<Mutex<Vec<Val>>> = Arc::new(Mutex::new(Vec::new()));
    crate::peer::install_epmd_net(w, p.epmd_creation, "peer", 5555, !p.epmd_legacy, 0, p.epmd_choppy);
    {
        let seen2 = seen.clone();
        let wea = p.write_error_after;
        install_conforming_peer(w, NetCfg { client: EndCfg { short_writes: true, stall_16: 3, max_delay_ms: 2, ..Default::default() }, server: EndCfg::default(), cap: 0 }, OTP_FLAGS_BASE, move |w, conn, _s| Box::pin(peer(w, conn, seen2.clone(), wea)));
    }
    let mut node = if p.hidden {
        w.stat("probe.c16n.hidden_node");
        Node::new_hidden(SUT_NAME, COOKIE)
    } else {
        Node::new(SUT_NAME, COOKIE)
    };
    let me = Val::Pid { node: SUT_NAME.to_string(), id: 900_001, serial: 0, creation: 1 };
    if p.near_wrap > 0 {
        node.verif_pid_allocator().next_id_test_only().store(1_048_576 - (p.near_wrap - 1), std::sync::atomic::Ordering::SeqCst);
    }
    let mut boundary = 0usize;
    let mut ref_boundary = 0usize;
    if !p.before_start.is_empty() {
        if node.connect(PEER_NAME).await.is_err() {
            return;
        }
        w.stat("probe.c16n.calls_before_start");
        for op in &p.before_start {
            do_op(w, &node, op, &me, &seen, &locals).await;
        }
        tokio::time::sleep(Duration::from_millis(100)).await;
        boundary = seen.lock().unwrap().pids.len();
        ref_boundary = seen.lock().unwrap().refs.len();
    }
    if let Err(e) = node.start(0).await {
        w.violation("HARNESS-setup", format!("Node::start failed: {}", e));
        return;
    }
    let expected_creation = if p.epmd_legacy { p.epmd_creation & 0xffff } else { p.epmd_creation };
    if node.creation() != expected_creation {
        w.violation("creation", format!("after start the node's creation is {} although EPMD handed out {}", node.creation(), expected_creation));
    }
    if expected_creation == 1 {
        w.stat("probe.c16n.same_creation_from_epmd");
    }
    if p.start_twice {
        if node.start(0).await.is_ok() {
            w.violation("second-start-accepted", "start() on a started node returned Ok".to_string());
        }
        w.stat("probe.c16n.second_start_refused");
        if node.creation() != expected_creation {
            w.violation("creation", format!("after a refused second start the node's creation is {} (it was {})", node.creation(), expected_creation));
        }
    }
    if p.before_start.is_empty() && node.connect(PEER_NAME).await.is_err() {
        return;
    }
    w.set_yield_cfg(YieldCfg { intensity: p.yield_intensity, site_mask: p.yield_mask, max_sleep_ms: 2 });
    let node = Arc::new(node);
    let mut hs = Vec::new();
    for ops in p.tasks.iter().cloned() {
        let (node, w, seen, locals, me) = (node.clone(), w.clone(), seen.clone(), locals.clone(), me.clone());
        hs.push(tokio::spawn(async move {
            for op in &ops {
                do_op(&w, &node, op, &me, &seen, &locals).await;
            }
        }));
    }
    for h in hs {
        let _ = h.await;
    }
    tokio::time::sleep(Duration::from_millis(300)).await;
    w.set_yield_cfg(YieldCfg::default());

    // ---- oracle ----
    let g = seen.lock().unwrap();
    let mut uniq: Vec<&Val> = Vec::new();
    for (i, (what, v)) in g.pids.iter().enumerate() {
        if let Some(j) = uniq.iter().position(|u| *u == v) {
            w.violation("duplicate-identifier", format!("{} #{} is {:?}, the same as identifier #{} ({}) handed out earlier by this node", what, i, v, j, g.pids[j].0));
            break;
        }
        uniq.push(v);
        if let Val::Pid { creation, id, .. } = v {
            let want = if i < boundary { 1 } else { expected_creation };
            if *creation != want {
                w.violation("creation", format!("{} {:?} carries creation {} but {} was in force when it was made", what, v, creation, want));
                break;
            }
            if *id == 1_048_576 {
                w.stat("probe.c16n.crossed_wrap");
            }
        }
    }
    let mut ruq: Vec<&Val> = Vec::new();
    for (i, (what, v)) in g.refs.iter().enumerate() {
        // the same monitor's reference legitimately shows up twice: returned and on the wire
        let returned_and_wire = g.refs.iter().filter(|(_, x)| x == v).count();
        let kinds: std::collections::BTreeSet<&str> = g.refs.iter().filter(|(_, x)| x == v).map(|(k, _)| if k.contains("MONITOR_P") { "wire" } else { "api" }).collect();
        if returned_and_wire > 2 || (returned_and_wire == 2 && kinds.len() != 2) {
            w.violation("duplicate-reference", format!("{} {:?} was handed out more than once", what, v));
            break;
        }
        if !ruq.contains(&v) {
            ruq.push(v);
        }
        if let Val::Ref { creation, .. } = v {
            let want = if i < ref_boundary { 1 } else { expected_creation };
            if *creation != want {
                w.violation("creation", format!("{} {:?} carries creation {} but {} was in force when it was made", what, v, creation, want));
                break;
            }
        }
    }
}
