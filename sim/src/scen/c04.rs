//! C04 — handshake: connected only after cookie proof; flags are the intersection.

use crate::core::{Rng, Tape, World, execute};
use crate::net::{Chunking, EndCfg};
use crate::peer::{self, NetCfg, ServerConn, install_epmd_net, install_peer, read_frame2};
use crate::runner::{Info, RunOutput, Scenario, Tier, finish};
use crate::wire;
use edp_client::state_machine::{ConnectionState, HandshakeStateMachine};
use edp_client::{Connection, ConnectionConfig, DistributionFlags};
use erltf::OwnedTerm;
use erltf::types::{Atom, ExternalPid, ExternalReference};
use serde::{Deserialize, Serialize};
use serde_json::Value;
use std::sync::{Arc, Mutex};
use std::time::Duration;
use tokio::io::AsyncWriteExt;

#[derive(Clone, Debug, Serialize, Deserialize, Default)]
struct Attempt {
    #[serde(default)]
    close_before: bool,
    /// u64::MAX = the TCP connect never completes
    #[serde(default)]
    connect_delay_ms: u64,
    #[serde(default)]
    peer_flags: u64,
    #[serde(default)]
    peer_challenge: u32,
    #[serde(default)]
    peer_creation: u32,
    #[serde(default)]
    peer_name: String,
    /// ok | ok_simultaneous | nok | not_allowed | alive | weird | wrongtag | empty
    #[serde(default)]
    status: String,
    /// valid | wrongtag | short | namelen | badutf8 | twice | before_status | oldformat
    #[serde(default)]
    challenge: String,
    /// valid | random | wrong_cookie | peer_challenge | stale | wrongtag | short | early | none
    #[serde(default)]
    ack: String,
    /// "" | silence | delay | truncate | hugelen | reset | close
    #[serde(default)]
    fault: String,
    /// 0 = before status, 1 = before challenge, 2 = before ack
    #[serde(default)]
    fault_step: u32,
    #[serde(default)]
    delay_ms: u64,
}

#[derive(Clone, Debug, Serialize, Deserialize, Default)]
struct ApiStep {
    /// begin | name | status | complement | challenge | reply | ack | disconnect
    op: String,
    /// argument variant (meaning depends on op)
    #[serde(default)]
    arg: u32,
    #[serde(default)]
    flags: u64,
    #[serde(default)]
    challenge: u32,
}

#[derive(Clone, Debug, Serialize, Deserialize, Default)]
struct Plan {
    kind: String,
    #[serde(default)]
    cookie: String,
    #[serde(default)]
    local_name: String,
    #[serde(default)]
    creation: u32,
    #[serde(default)]
    local_flags: u64,
    #[serde(default)]
    timeout_ms: u64,
    #[serde(default)]
    client: EndCfg,
    #[serde(default)]
    server: EndCfg,
    #[serde(default)]
    cap: u32,
    #[serde(default)]
    attempts: Vec<Attempt>,
    #[serde(default)]
    steps: Vec<ApiStep>,
    /// how long EPMD takes to answer the port lookup (not a peer behaviour; the handshake starts afterwards)
    #[serde(default)]
    epmd_delay_ms: u64,
    /// how the configuration is put together: 0 new().with_flags(f), 1 new_hidden().with_flags(f),
    /// 2 new_hidden() as it is (local_flags holds its default), 3 new() as it is, 4 with_flags twice (last
    /// wins), 5 the setters in another order
    #[serde(default)]
    ctor: u32,
    /// the connection is configured with Duration::MAX ("no timeout"); the peer then never goes silent
    /// (timeout_ms stays the yardstick for how long a responsive peer may take)
    #[serde(default)]
    unbounded_timeout: bool,
    #[serde(default)]
    salt: u64,
}

pub struct C04;

fn gen_cookie(r: &mut Rng) -> String {
    match r.below(8) {
        0 => String::new(),
        1 => "x".repeat(r.range(500, 4096) as usize),
        2 => "sécrèt-クッキー-🍪".to_string(),
        5 => {
            // a few ASCII letters, then multi-byte characters: any small byte offset may fall inside one
            let mut s: String = (0..r.below(6)).map(|_| (b'a' + r.below(26) as u8) as char).collect();
            for _ in 0..r.range(1, 6) {
                s.push(*r.pick(&['é', '€', '😀', 'ß', '日']));
                if r.chance(1, 3) {
                    s.push('x');
                }
            }
            s
        }
        3 => "0".to_string(),
        4 => {
            // text that a tidy-minded reader of cookie files would trim or fold
            let core: String = (0..r.range(1, 12)).map(|_| (b'a' + r.below(26) as u8) as char).collect();
            match r.below(8) {
                0 => format!("{}\n", core),
                1 => format!("{}\r\n", core),
                2 => format!(" {}", core),
                3 => format!("{} ", core),
                4 => format!("{}\t", core),
                5 => format!("{}\0", core),
                6 => core.to_uppercase(),
                _ => format!("\n{}", core),
            }
        }
        _ => {
            let n = r.range(1, 30) as usize;
            (0..n).map(|_| (b'A' + r.below(26) as u8) as char).collect()
        }
    }
}

fn gen_name(r: &mut Rng) -> String {
    let alive: String = match r.below(6) {
        0 => "a".to_string(),
        1 => "n".repeat(251),
        2 => "n".repeat(252),
        3 => "ノード".to_string(),
        _ => {
            let n = r.range(1, 20) as usize;
            (0..n).map(|_| (b'a' + r.below(26) as u8) as char).collect()
        }
    };
    format!("{}@sut", alive)
}

fn gen_flags(r: &mut Rng) -> u64 {
    match r.below(5) {
        0 => DistributionFlags::default().as_u64(),
        1 => DistributionFlags::default().as_u64() | peer::FLAG_DIST_HDR_ATOM_CACHE,
        2 => u64::MAX,
        3 => r.next_u64(),
        _ => DistributionFlags::default_hidden().as_u64() ^ (1u64 << r.below(40)),
    }
}

fn worst_disturbance_ms(c: &EndCfg, s: &EndCfg, cap: u32) -> u64 {
    let frame = 1200u64;
    let mut w = 0u64;
    if cap > 0 {
        // a small pipe needs one delivery latency per `cap` bytes
        w += (frame / u64::from(cap) + 1) * u64::from(c.latency_ms + s.latency_ms + 1);
    }
    for e in [c, s] {
        if e.spurious_16 > 0 || e.stall_16 > 0 {
            w += frame * u64::from(e.max_delay_ms);
        }
        w += 8 * u64::from(e.latency_ms);
    }
    w
}

fn gen_end(r: &mut Rng, calm: bool) -> EndCfg {
    if calm {
        return EndCfg { chunking: *r.pick(&[Chunking::Whole, Chunking::Random, Chunking::Byte]), latency_ms: *r.pick(&[0, 1, 5]), short_writes: r.chance(1, 2), ..Default::default() };
    }
    EndCfg {
        chunking: *r.pick(&[Chunking::Whole, Chunking::Random, Chunking::Byte]),
        spurious_16: *r.pick(&[0, 0, 2, 6]),
        stall_16: *r.pick(&[0, 0, 2, 6]),
        short_writes: r.chance(1, 2),
        latency_ms: *r.pick(&[0, 0, 1, 5, 50]),
        max_delay_ms: *r.pick(&[0, 1, 5, 50]),
    }
}

/// Deviations after which a client without a timeout would rightly wait for ever.
fn silent_deviation(a: &Attempt) -> bool {
    matches!(a.fault.as_str(), "silence" | "hugelen" | "drip" | "delay") || a.ack == "none" || a.ack == "early" || a.connect_delay_ms > 0 || a.challenge == "before_status"
}

fn gen_attempt(r: &mut Rng, idx: usize, timeout_ms: u64, deviate: bool) -> Attempt {
    let (c1, c2) = (r.next_u32(), r.next_u32());
    let mut a = Attempt {
        close_before: idx > 0 && !r.chance(1, 8),
        connect_delay_ms: 0,
        peer_flags: gen_flags(r),
        peer_challenge: *r.pick(&[0u32, 1, u32::MAX, 0x8000_0000, c1, c2]),
        peer_creation: r.next_u32(),
        peer_name: if r.chance(1, 6) { "p".repeat(255) + "@peerhost" } else { "peer@peerhost".to_string() },
        status: "ok".into(),
        challenge: "valid".into(),
        ack: "valid".into(),
        fault: String::new(),
        fault_step: 0,
        delay_ms: 0,
    };
    if r.chance(1, 8) {
        a.status = "ok_simultaneous".into();
    }
    if !deviate {
        return a;
    }
    match r.below(5) {
        0 => a.status = (*r.pick(&["nok", "not_allowed", "alive", "weird", "weird_long", "wrongtag", "empty"])).to_string(),
        1 => a.challenge = (*r.pick(&["wrongtag", "short", "namelen", "badutf8", "twice", "before_status", "oldformat"])).to_string(),
        2 => a.ack = (*r.pick(&["random", "wrong_cookie", "peer_challenge", "stale", "wrongtag", "short", "early", "none"])).to_string(),
        3 => {
            a.fault = (*r.pick(&["silence", "delay", "delay", "truncate", "hugelen", "reset", "close", "drip"])).to_string();
            a.fault_step = r.below(3) as u32;
            a.delay_ms = match r.below(4) {
                0 => timeout_ms.saturating_sub(40),
                1 => timeout_ms + 40,
                2 => timeout_ms / 2,
                _ => timeout_ms * 3,
            };
            if a.fault == "drip" {
                // the gap between two bytes of a long frame, well below the timeout
                a.delay_ms = (timeout_ms / *r.pick(&[3u64, 4, 10])).max(1);
            }
        }
        _ => {
            a.connect_delay_ms = *r.pick(&[u64::MAX, timeout_ms + 30, timeout_ms.saturating_sub(30), 1]);
        }
    }
    a
}

/// Digests that are wrong in a structured way (what a hand-rolled comparison might let through).
/// An unknown status text of `len` bytes (about): a short ASCII prefix, then one multi-byte character
/// repeated, so that any fixed byte offset may fall inside a character.
fn long_status(a: u32, b: u32) -> String {
    let len = [40usize, 63, 64, 65, 66, 100, 255, 256, 300, 1000, 4096, 65_000][(a % 12) as usize];
    let ch = ['é', '日', '🍪'][(b % 3) as usize];
    let mut s = "x".repeat(((a / 12) % 5) as usize);
    while s.len() + ch.len_utf8() <= len {
        s.push(ch);
    }
    s
}

fn render_unpadded(d: &[u8], hex: bool) -> String {
    d.iter().map(|b| if hex { format!("{:x}", b) } else { format!("{}", b) }).collect()
}

/// A different 16-byte value that a lossy comparison would take for `good`: equal after rendering
/// without padding (hex or decimal), after lossy UTF-8 conversion, after ASCII case folding, as a
/// C string (up to the first zero byte), or as a multiset of bytes. None if `good` has no such twin.
fn lossy_twin(good: &[u8; 16], family: u32, a: u32) -> Option<[u8; 16]> {
    let start = (a % 16) as usize;
    match family {
        0 | 1 => {
            let hex = family == 0;
            for k in 0..15 {
                let i = (start + k) % 15;
                let s = render_unpadded(&good[i..i + 2], hex);
                for cut in 1..s.len() {
                    let (l, r) = s.split_at(cut);
                    let ok = |t: &str| t == "0" || !t.starts_with('0');
                    if !ok(l) || !ok(r) {
                        continue;
                    }
                    let radix = if hex { 16 } else { 10 };
                    let (Ok(x), Ok(y)) = (u32::from_str_radix(l, radix), u32::from_str_radix(r, radix)) else { continue };
                    if x > 255 || y > 255 || (x as u8, y as u8) == (good[i], good[i + 1]) {
                        continue;
                    }
                    let mut d = *good;
                    d[i] = x as u8;
                    d[i + 1] = y as u8;
                    if render_unpadded(&d, hex) == render_unpadded(good, hex) {
                        return Some(d);
                    }
                }
            }
            None
        }
        2 => {
            for k in 0..16 {
                let i = (start + k) % 16;
                if good[i] >= 0x80 {
                    for cand in [0xffu8, 0xfe, 0x80, 0xc0, 0xf8] {
                        let mut d = *good;
                        d[i] = cand;
                        if d != *good && String::from_utf8_lossy(&d) == String::from_utf8_lossy(good) {
                            return Some(d);
                        }
                    }
                }
            }
            None
        }
        3 => (0..16).map(|k| (start + k) % 16).find(|i| good[*i].is_ascii_alphabetic()).map(|i| {
            let mut d = *good;
            d[i] ^= 0x20;
            d
        }),
        4 => good[..15].iter().position(|b| *b == 0).map(|z| {
            let mut d = *good;
            d[z + 1 + (start % (15 - z))] ^= 0x10;
            d
        }),
        _ => {
            for k in 0..16 {
                let i = (start + k) % 16;
                let j = (i + 1 + (a as usize / 16) % 15) % 16;
                if good[i] != good[j] {
                    let mut d = *good;
                    d.swap(i, j);
                    return Some(d);
                }
            }
            None
        }
    }
}

fn near_miss_digest(good: &[u8; 16], kind: u32, a: u32, b: u32) -> [u8; 16] {
    let mut d = *good;
    if kind % 12 >= 6 {
        if let Some(t) = lossy_twin(good, kind % 12 - 6, a.wrapping_mul(7).wrapping_add(b)) {
            return t;
        }
    }
    match kind % 6 {
        0 => d[(a % 16) as usize] ^= 1 << (b % 8),
        1 => {
            // the same difference in both 8-byte halves
            let mask = (1u8 << (b % 8)) | (a as u8 & 0x41);
            let mask = if mask == 0 { 1 } else { mask };
            d[(a % 8) as usize] ^= mask;
            d[(a % 8) as usize + 8] ^= mask;
        }
        2 => d.rotate_left(8),
        3 => d.reverse(),
        4 => d.rotate_left(1 + (a % 15) as usize),
        _ => {
            for x in d.iter_mut() {
                *x ^= 0xff;
            }
        }
    }
    if d == *good {
        d[0] ^= 1;
    }
    d
}

fn gen_api_steps(r: &mut Rng) -> Vec<ApiStep> {
    let n = r.range(3, 12) as usize;
    let ops = ["begin", "name", "status", "complement", "challenge", "reply", "ack", "disconnect"];
    let mut out = Vec::new();
    // half of the histories follow the protocol order with perturbations, half are arbitrary
    let ordered = r.chance(1, 2);
    for i in 0..n {
        let op = if ordered && r.chance(3, 4) { ops[i % ops.len()] } else { *r.pick(&ops) };
        out.push(ApiStep { op: op.to_string(), arg: r.below(14) as u32, flags: gen_flags(r), challenge: r.next_u32() });
    }
    out
}

impl Scenario for C04 {
    fn id(&self) -> &'static str {
        "C04"
    }

    fn runs(&self, tier: Tier) -> u64 {
        match tier {
            Tier::Quick => 200_000,
            Tier::Thorough => 10_000_000,
        }
    }

    fn gen_plan(&self, r: &mut Rng, _tier: Tier, _index: u64) -> Value {
        let api = r.chance(1, 4);
        let base_timeout = *r.pick(&[50u64, 300, 3000, 10_000]);
        let timing_sensitive = r.chance(1, 3);
        let client = gen_end(r, timing_sensitive);
        let server = gen_end(r, timing_sensitive);
        // a socket buffer smaller than one handshake message does not exist in practice (and both
        // sides may legitimately have a message in flight at once), so capacities stay above that
        let cap = *r.pick(&[0u32, 0, 512, 4096]);
        let timeout_ms = base_timeout + 2 * worst_disturbance_ms(&client, &server, cap);
        let n_attempts = *r.pick(&[1usize, 1, 2, 3]);
        let mut attempts = Vec::new();
        for i in 0..n_attempts {
            let deviate = r.chance(3, 5);
            let mut a = gen_attempt(r, i, timeout_ms, deviate);
            if a.fault == "delay" && !timing_sensitive {
                // keep clear of the boundary when the network itself is jittery
                a.delay_ms = if a.delay_ms > timeout_ms { timeout_ms * 3 } else { base_timeout / 4 };
            }
            attempts.push(a);
        }
        let unbounded_timeout = !api && r.chance(1, 25);
        if unbounded_timeout {
            // one attempt only: a second handshake on an object that completed one is where the unchanged
            // tree already fails a conforming peer (by timing out; see DESIGN 9.4, observations)
            attempts.truncate(1);
            for a in attempts.iter_mut() {
                if silent_deviation(a) {
                    a.fault.clear();
                    a.ack = "valid".into();
                    a.connect_delay_ms = 0;
                }
            }
        }
        let ctor = if api { 0 } else { *r.pick(&[0u32, 0, 0, 1, 1, 2, 3, 4, 5]) };
        let local_flags = match ctor {
            2 => DistributionFlags::default_hidden().as_u64(),
            3 => DistributionFlags::default().as_u64(),
            _ => gen_flags(r),
        };
        let p = Plan {
            kind: if api { "api" } else { "connect" }.to_string(),
            ctor,
            unbounded_timeout,
            cookie: gen_cookie(r),
            local_name: gen_name(r),
            creation: r.next_u32(),
            local_flags,
            timeout_ms,
            client,
            server,
            cap,
            attempts: if api { Vec::new() } else { attempts },
            steps: if api { gen_api_steps(r) } else { Vec::new() },
            epmd_delay_ms: if !unbounded_timeout && r.chance(1, 6) { *r.pick(&[timeout_ms / 2, timeout_ms + 50, timeout_ms * 3]) } else { 0 },
            salt: r.next_u64(),
        };
        serde_json::to_value(p).unwrap()
    }

    fn run(&self, plan: &Value, tape: Tape, keep: bool) -> RunOutput {
        let p: Plan = match serde_json::from_value(plan.clone()) {
            Ok(p) => p,
            Err(_) => return RunOutput::default(),
        };
        // plans the generator cannot produce (a minimiser candidate with a timeout below the
        // network's own worst-case delay) say nothing about the property
        if p.kind != "api" && p.cap > 0 && p.cap < 512 {
            return RunOutput::default();
        }
        if p.kind != "api" && p.timeout_ms < 50 + 2 * worst_disturbance_ms(&p.client, &p.server, p.cap) {
            return RunOutput::default();
        }
        if p.unbounded_timeout && (p.epmd_delay_ms > 0 || p.attempts.len() != 1 || p.attempts.iter().any(silent_deviation)) {
            return RunOutput::default();
        }
        let world = World::new(tape, keep, p.salt);
        let ex = execute(&world, 24 * 3_600_000, |w| async move {
            if p.kind == "api" {
                api_history(&w, &p);
            } else {
                connect_history(&w, &p).await;
            }
        });
        finish(&world, &ex, true)
    }

    fn info(&self) -> Info {
        Info {
            rule: "one run = seeded cookie/name/creation/flags/timeout/network behaviour + either (connect) 1..3 attempts on one Connection against a scripted peer with at most one deviation per attempt (status, challenge, ack variants; silence, delay around the timeout, truncation, 0xFFFF length then stall, a long frame trickled with gaps below the timeout for several timeouts, reset, close; wrong digests incl. twins under lossy comparisons (unpadded hex/decimal rendering, lossy UTF-8, case folding, C-string, byte multiset); an EPMD that answers after up to three timeouts; slow or never-completing TCP connect) or (api) a 3..12-step history of HandshakeStateMachine calls in any order with valid, invalid and stale arguments, checked step by step against a reference model. All runs are non-trivial; distinct = distinct (transfer sequence, event log).",
            components_real: &["edp_client::Connection::connect/close/send_*", "edp_client::state_machine", "edp_client::handshake", "edp_client::digest (formula)", "edp_client::transport + framing", "edp_client::epmd_client (client side)", "tokio timers (paused clock)"],
            components_stubbed: &["TCP (SimNet)", "EPMD daemon (conforming stub)", "remote node (scripted handshake peer, independent MD5 formula and layouts)", "challenge source (seeded through hook H4)"],
            assumptions: &["EPMD itself conforms; it may answer late (the property is about the peer, so the time bound is counted from EPMD's answer)", "worst-case injected network delay per frame is kept below half the configured timeout, so a conforming peer is never legitimately timed out"],
            fault_prefixes: &["fault.", "net."],
            expected_probes: &["probe.c04.connected", "probe.c04.refused_status", "probe.c04.bad_ack_rejected", "probe.c04.stale_ack_rejected", "probe.c04.timeout_on_silence", "probe.c04.reuse_after_close_connected", "probe.c04.delay_just_below_timeout_ok", "probe.c04.delay_above_timeout_err", "probe.c04.api_connected", "probe.c04.timeout_on_dripped_frame", "probe.c04.connected_after_slow_epmd", "probe.c04.configuration_built_another_way", "probe.c04.no_timeout_configured", "probe.c04.digest_of_an_unset_challenge_rejected"],
        }
    }
}

// ---------------------------------------------------------------------------
// connect histories
// ---------------------------------------------------------------------------

#[derive(Default, Clone)]
struct PeerLog {
    raw_frames: Vec<Vec<u8>>,
    client_challenge: Option<u32>,
    bytes_after_handshake: u64,
    deviated_at_ms: Option<u64>,
    sent_valid_ack: bool,
    c2s: Option<crate::net::PipeCtl>,
}

async fn hold_open(conn: &mut ServerConn, log: &Arc<Mutex<PeerLog>>) {
    use tokio::io::AsyncReadExt;
    let mut buf = [0u8; 256];
    loop {
        match conn.read.read(&mut buf).await {
            Ok(0) | Err(_) => break,
            Ok(n) => log.lock().unwrap().bytes_after_handshake += n as u64,
        }
    }
}

async fn peer_attempt(w: Arc<World>, mut conn: ServerConn, a: Attempt, cookie: String, stale_ack: Option<[u8; 16]>, log: Arc<Mutex<PeerLog>>) {
    let fault_here = |step: u32| a.fault_step == step && !a.fault.is_empty();
    // Returns false if the peer stops here.
    async fn apply_fault(w: &Arc<World>, conn: &mut ServerConn, a: &Attempt, log: &Arc<Mutex<PeerLog>>, next_frame: &[u8]) -> bool {
        log.lock().unwrap().deviated_at_ms = Some(World::now_ms());
        w.stat(&format!("fault.hs_{}", a.fault));
        match a.fault.as_str() {
            "silence" => {
                hold_open(conn, log).await;
                false
            }
            "delay" => {
                tokio::time::sleep(Duration::from_millis(a.delay_ms)).await;
                true
            }
            "truncate" => {
                let f = wire::frame2(next_frame);
                let n = (f.len() / 2).max(1);
                let _ = conn.write.write_all(&f[..n]).await;
                false
            }
            "drip" => {
                // announces a long frame and then trickles it, every gap shorter than the timeout, for
                // several timeouts in total
                let gap = a.delay_ms.max(1);
                let total = 6 * gap * 10;
                let _ = conn.write.write_all(&[0xff, 0xf0, next_frame.first().copied().unwrap_or(b's')]).await;
                let mut spent = 0u64;
                while spent < total {
                    tokio::time::sleep(Duration::from_millis(gap)).await;
                    spent += gap;
                    if conn.write.write_all(b"k").await.is_err() {
                        break;
                    }
                }
                hold_open(conn, log).await;
                false
            }
            "hugelen" => {
                let _ = conn.write.write_all(&[0xff, 0xff, b's', b'o']).await;
                hold_open(conn, log).await;
                false
            }
            "reset" => {
                conn.s2c.reset();
                false
            }
            _ => false, // close
        }
    }

    let name = match read_frame2(&mut conn.read).await {
        Ok(f) => f,
        Err(_) => return,
    };
    let new_format = name.first() == Some(&b'N');
    log.lock().unwrap().raw_frames.push(name);

    let status_frame: Vec<u8> = match a.status.as_str() {
        "ok" | "ok_simultaneous" | "nok" | "not_allowed" | "alive" => wire::hs_status(&a.status),
        "weird" => wire::hs_status("okay"),
        "weird_long" => wire::hs_status(&long_status(a.peer_challenge, a.peer_creation)),
        "wrongtag" => {
            let mut f = wire::hs_status("ok");
            f[0] = b'S';
            f
        }
        _ => Vec::new(),
    };
    let valid_challenge = wire::hs_challenge(a.peer_flags, a.peer_challenge, a.peer_creation, &a.peer_name);
    let challenge_frame: Vec<u8> = match a.challenge.as_str() {
        "wrongtag" => {
            let mut f = valid_challenge.clone();
            f[0] = b'M';
            f
        }
        "short" => valid_challenge[..10].to_vec(),
        "namelen" => {
            let mut f = valid_challenge.clone();
            let l = a.peer_name.len() as u16 + 5;
            f[17..19].copy_from_slice(&l.to_be_bytes());
            f
        }
        "badutf8" => {
            let mut f = valid_challenge.clone();
            let last = f.len() - 1;
            f[last] = 0xff;
            f[19] = 0xc0;
            f
        }
        "oldformat" => {
            // 'n' version flags challenge name: the pre-OTP-23 layout
            let mut f = vec![b'n', 0, 5];
            f.extend_from_slice(&(a.peer_flags as u32).to_be_bytes());
            f.extend_from_slice(&a.peer_challenge.to_be_bytes());
            f.extend_from_slice(a.peer_name.as_bytes());
            f
        }
        _ => valid_challenge.clone(),
    };

    if a.challenge == "before_status" {
        let _ = conn.write.write_all(&wire::frame2(&challenge_frame)).await;
    }
    if fault_here(0) && !apply_fault(&w, &mut conn, &a, &log, &status_frame).await {
        return;
    }
    if conn.write.write_all(&wire::frame2(&status_frame)).await.is_err() {
        return;
    }
    if fault_here(1) && !apply_fault(&w, &mut conn, &a, &log, &challenge_frame).await {
        return;
    }
    if a.challenge != "before_status" {
        if conn.write.write_all(&wire::frame2(&challenge_frame)).await.is_err() {
            return;
        }
        if a.challenge == "twice" {
            let _ = conn.write.write_all(&wire::frame2(&challenge_frame)).await;
        }
    }
    if a.ack == "early" {
        let _ = conn.write.write_all(&wire::frame2(&wire::hs_ack(&wire::digest(&cookie, a.peer_challenge)))).await;
    }
    // complement (only after an old-layout name) and reply
    if !new_format {
        let comp = match read_frame2(&mut conn.read).await {
            Ok(f) => f,
            Err(_) => return,
        };
        log.lock().unwrap().raw_frames.push(comp);
    }
    let reply = match read_frame2(&mut conn.read).await {
        Ok(f) => f,
        Err(_) => return,
    };
    let client_challenge = wire::parse_reply(&reply).ok().map(|x| x.0);
    {
        let mut l = log.lock().unwrap();
        l.raw_frames.push(reply);
        l.client_challenge = client_challenge;
    }
    let cc = client_challenge.unwrap_or(0);
    let valid_ack = wire::hs_ack(&wire::digest(&cookie, cc));
    let ack_frame: Vec<u8> = match a.ack.as_str() {
        "random" => {
            let good = wire::digest(&cookie, cc);
            wire::hs_ack(&near_miss_digest(&good, w.draw(12), w.draw(16), w.draw(8)))
        }
        "wrong_cookie" => wire::hs_ack(&wire::digest(&format!("{}x", cookie), cc)),
        "peer_challenge" => wire::hs_ack(&wire::digest(&cookie, a.peer_challenge)),
        "stale" => wire::hs_ack(&stale_ack.unwrap_or([0u8; 16])),
        "wrongtag" => {
            let mut f = valid_ack.clone();
            f[0] = b'A';
            f
        }
        "short" => valid_ack[..9].to_vec(),
        _ => valid_ack.clone(),
    };
    if fault_here(2) && !apply_fault(&w, &mut conn, &a, &log, &ack_frame).await {
        return;
    }
    if a.ack == "none" {
        log.lock().unwrap().deviated_at_ms = Some(World::now_ms());
        hold_open(&mut conn, &log).await;
        return;
    }
    if a.ack != "early" {
        if conn.write.write_all(&wire::frame2(&ack_frame)).await.is_err() {
            return;
        }
        if ack_frame == valid_ack {
            log.lock().unwrap().sent_valid_ack = true;
        }
    }
    hold_open(&mut conn, &log).await;
}

fn check_client_frames(w: &Arc<World>, p: &Plan, a: &Attempt, l: &PeerLog) {
    // send_name: either 'n' 0005 flags32 name (+ complement 'c' flagsHigh32 creation32 later)
    // or 'N' flags64 creation32 nlen16 name (and then no complement)
    let mut reply_index = 2;
    if let Some(f) = l.raw_frames.first() {
        match wire::parse_send_name(f) {
            Ok(n) if n.new_format => {
                reply_index = 1;
                if n.flags != p.local_flags || n.creation != Some(p.creation) || n.name != p.local_name.as_bytes() {
                    w.violation("name-layout", format!("send_name 'N' carries flags {:#x} creation {:?} name {} bytes; expected {:#x}, {}, {:?}", n.flags, n.creation, n.name.len(), p.local_flags, p.creation, p.local_name));
                }
            }
            Ok(n) => {
                if n.flags != u64::from(p.local_flags as u32) || n.name != p.local_name.as_bytes() {
                    w.violation("name-layout", format!("send_name carries version 5 flags {:#x} name {} bytes; expected 5, {:#x}, {:?}", n.flags, n.name.len(), p.local_flags as u32, p.local_name));
                }
                if let Some(f) = l.raw_frames.get(1) {
                    match wire::parse_complement(f) {
                        Ok((hi, cr)) => {
                            if hi != (p.local_flags >> 32) as u32 || cr != p.creation {
                                w.violation("complement-layout", format!("complement carries flagsHigh {:#x} creation {}; expected {:#x}, {}", hi, cr, (p.local_flags >> 32) as u32, p.creation));
                            }
                        }
                        Err(e) => w.violation("complement-layout", e),
                    }
                }
            }
            Err(e) => w.violation("name-layout", e),
        }
    }
    if let Some(f) = l.raw_frames.get(reply_index) {
        match wire::parse_reply(f) {
            Ok((_c, d)) => {
                if (a.challenge == "valid" || a.challenge == "twice") && d != wire::digest(&p.cookie, a.peer_challenge) {
                    w.violation("reply-digest", "challenge_reply digest is not MD5(cookie ++ decimal(peer's challenge))".to_string());
                }
            }
            Err(e) => w.violation("reply-layout", e),
        }
    }
}

async fn connect_history(w: &Arc<World>, p: &Plan) {
    install_epmd_net(w, 7, "peer", 5555, true, p.epmd_delay_ms, p.salt & 3 == 3);
    let logs: Arc<Mutex<Vec<Arc<Mutex<PeerLog>>>>> = Arc::new(Mutex::new(Vec::new()));
    let stale: Arc<Mutex<Option<[u8; 16]>>> = Arc::new(Mutex::new(None));
    let attempts = p.attempts.clone();
    let cookie = p.cookie.clone();
    let logs2 = logs.clone();
    let stale2 = stale.clone();
    // the driver announces which attempt is in progress; the peer plays that attempt's script
    let cur: Arc<Mutex<usize>> = Arc::new(Mutex::new(0));
    let cur2 = cur.clone();
    let cur3 = cur.clone();
    let delays: Vec<u64> = attempts.iter().map(|a| a.connect_delay_ms).collect();
    install_peer(
        w,
        "peerhost:5555",
        NetCfg { client: p.client.clone(), server: p.server.clone(), cap: p.cap as usize },
        move |_| delays.get(*cur3.lock().unwrap()).copied().unwrap_or(0),
        move |w: &Arc<World>, conn: ServerConn| {
            let a = attempts.get(*cur2.lock().unwrap()).cloned().unwrap_or_default();
            let log = Arc::new(Mutex::new(PeerLog { c2s: Some(conn.c2s.clone()), ..Default::default() }));
            logs2.lock().unwrap().push(log.clone());
            let st = *stale2.lock().unwrap();
            tokio::spawn(peer_attempt(w.clone(), conn, a, cookie.clone(), st, log));
        },
    );

    let (f, cr, t) = (DistributionFlags::new(p.local_flags), p.creation, if p.unbounded_timeout { Duration::MAX } else { Duration::from_millis(p.timeout_ms) });
    if p.unbounded_timeout {
        w.stat("probe.c04.no_timeout_configured");
    }
    let cfg = match p.ctor {
        1 => ConnectionConfig::new_hidden(p.local_name.clone(), "peer@peerhost", p.cookie.clone()).with_flags(f).with_creation(cr).with_timeout(t),
        2 if p.local_flags == DistributionFlags::default_hidden().as_u64() => ConnectionConfig::new_hidden(p.local_name.clone(), "peer@peerhost", p.cookie.clone()).with_creation(cr).with_timeout(t),
        3 if p.local_flags == DistributionFlags::default().as_u64() => ConnectionConfig::new(p.local_name.clone(), "peer@peerhost", p.cookie.clone()).with_creation(cr).with_timeout(t),
        4 => ConnectionConfig::new(p.local_name.clone(), "peer@peerhost", p.cookie.clone()).with_flags(DistributionFlags::new(!p.local_flags)).with_flags(f).with_creation(cr).with_timeout(t),
        5 => ConnectionConfig::new_hidden(p.local_name.clone(), "peer@peerhost", p.cookie.clone()).with_timeout(t).with_creation(cr).with_epmd_host("localhost").with_flags(f),
        _ => ConnectionConfig::new(p.local_name.clone(), "peer@peerhost", p.cookie.clone()).with_flags(f).with_creation(cr).with_timeout(t),
    };
    if p.ctor != 0 {
        w.stat("probe.c04.configuration_built_another_way");
    }
    let mut conn = Connection::new(cfg);
    let name_ok = p.local_name.len() <= 255;
    let worst = worst_disturbance_ms(&p.client, &p.server, p.cap);
    let mut tcp_index = 0usize;
    let mut last_issued = 0usize;
    let mut connected_before = false;

    for (i, a) in p.attempts.iter().enumerate() {
        if i > 0 && a.close_before {
            let _ = conn.close().await;
            connected_before = false;
            if conn.state() != ConnectionState::Disconnected {
                w.violation("close-state", format!("state after close() is {}", conn.state()));
            }
        }
        let must_refuse_early = i > 0 && !a.close_before;
        *cur.lock().unwrap() = i;
        let t_call = World::now_ms();
        let res = conn.connect().await;
        let t1 = World::now_ms();
        // the peer's part begins once EPMD has answered
        let t0 = t_call + p.epmd_delay_ms;
        if p.epmd_delay_ms > p.timeout_ms && res.is_ok() {
            w.stat("probe.c04.connected_after_slow_epmd");
        }
        w.ev(format!("attempt {} connect -> {} at {}ms state={}", i, if res.is_ok() { "Ok".to_string() } else { format!("Err({})", res.as_ref().unwrap_err()) }, t1, conn.state()));

        if must_refuse_early {
            if res.is_ok() {
                w.violation("reconnect-without-close", "connect() on a connection that was not closed returned Ok".to_string());
            }
            if conn.is_connected() != connected_before {
                w.violation("reconnect-without-close", "connect() without close() changed whether the connection is connected".to_string());
            }
            continue;
        }

        let tcp_completes = a.connect_delay_ms < p.timeout_ms.saturating_sub(1);
        let tcp_maybe = a.connect_delay_ms <= p.timeout_ms + 1;
        let log = if a.connect_delay_ms != u64::MAX { logs.lock().unwrap().get(tcp_index).cloned() } else { None };
        if log.is_some() {
            tcp_index += 1;
        }
        // let the peer finish logging what it received
        tokio::time::sleep(Duration::from_millis(worst + 200)).await;
        let l = log.as_ref().map(|l| l.lock().unwrap().clone()).unwrap_or_default();
        check_client_frames(w, p, a, &l);

        let issued = w.challenges_issued();
        let this_issued: Vec<u32> = issued[last_issued..].to_vec();
        last_issued = issued.len();

        let delay_fault_ok = a.fault != "delay" || a.delay_ms + worst + 2 < p.timeout_ms;
        let delay_fault_undecided = a.fault == "delay" && !delay_fault_ok && a.delay_ms <= p.timeout_ms + worst + 2;
        let conforming = name_ok
            && tcp_completes
            && (a.status == "ok" || a.status == "ok_simultaneous")
            && a.challenge == "valid"
            && a.ack == "valid"
            && (a.fault.is_empty() || (a.fault == "delay" && delay_fault_ok));
        let undecided = (tcp_maybe && !tcp_completes) || delay_fault_undecided;

        // Safety, always: connected only with proof.
        if res.is_ok() || conn.is_connected() {
            if res.is_ok() != conn.is_connected() {
                w.violation("state-mismatch", format!("connect() returned {} but is_connected() is {}", if res.is_ok() { "Ok" } else { "Err" }, conn.is_connected()));
            }
            let proof = l.sent_valid_ack && l.client_challenge.is_some() && this_issued.last().copied() == l.client_challenge;
            if !proof {
                w.violation("connected-without-proof", format!("attempt {} (status={}, challenge={}, ack={}, fault={}) ended connected although the peer never returned MD5(cookie ++ this handshake's challenge)", i, a.status, a.challenge, a.ack, a.fault));
            }
            let want = p.local_flags & a.peer_flags;
            match conn.negotiated_flags() {
                Some(f) if f.as_u64() == want => {}
                other => w.violation("flags-not-intersection", format!("negotiated {:?}, expected {:#x} = {:#x} & {:#x}", other.map(|f| f.as_u64()), want, p.local_flags, a.peer_flags)),
            }
            w.stat("probe.c04.connected");
            if i > 0 {
                w.stat("probe.c04.reuse_after_close_connected");
            }
            if a.fault == "delay" && a.delay_ms * 10 > p.timeout_ms * 8 {
                w.stat("probe.c04.delay_just_below_timeout_ok");
            }
            connected_before = true;
        } else {
            connected_before = false;
        }
        if conforming && !undecided && res.is_err() {
            // Not a violation of C04 (which only restricts when the connected state may be
            // reached); counted so that a vacuous pass (nothing ever connects) is visible.
            w.stat("c04.conforming_peer_refused");
            if i > 0 && p.attempts[..i].iter().any(|_| true) {
                w.stat("c04.conforming_peer_refused_on_reuse");
            }
        }
        if !conforming && !undecided {
            if res.is_ok() {
                // already reported as connected-without-proof unless the deviation was harmless by construction
                w.stat("c04.nonconforming_ok");
            } else {
                match (a.status.as_str(), a.ack.as_str(), a.fault.as_str()) {
                    ("nok" | "not_allowed" | "alive", _, _) => w.stat("probe.c04.refused_status"),
                    (_, "stale", _) => w.stat("probe.c04.stale_ack_rejected"),
                    (_, "random" | "wrong_cookie" | "peer_challenge", _) => w.stat("probe.c04.bad_ack_rejected"),
                    (_, _, "silence") => w.stat("probe.c04.timeout_on_silence"),
                    (_, _, "drip") => w.stat("probe.c04.timeout_on_dripped_frame"),
                    (_, _, "delay") => w.stat("probe.c04.delay_above_timeout_err"),
                    _ => {}
                }
            }
            // Bounded time: an error within the configured timeout of the deviation.
            let start = l.deviated_at_ms.unwrap_or(t0).max(t0);
            let budget = p.timeout_ms + worst + 50;
            let silent_kind = matches!(a.fault.as_str(), "silence" | "hugelen" | "delay" | "drip") || a.ack == "none" || a.connect_delay_ms > p.timeout_ms;
            if silent_kind && t1 > start + budget {
                w.violation("late-error", format!("attempt {}: peer went silent at {}ms, connect() returned at {}ms; timeout is {}ms", i, start, t1, p.timeout_ms));
            }
            if !silent_kind && t1 > t0 + 6 * (p.timeout_ms + worst) + 50 {
                w.violation("late-error", format!("attempt {}: connect() took {}ms with timeout {}ms", i, t1 - t0, p.timeout_ms));
            }
        }
        // Remember a valid ack of this attempt for a later 'stale' replay.
        if let Some(cc) = l.client_challenge {
            *stale.lock().unwrap() = Some(wire::digest(&p.cookie, cc));
        }

        // After a failed attempt no send API may put bytes on the wire.
        if !conn.is_connected() {
            let before = l.c2s.as_ref().map(|c| c.total_written()).unwrap_or(0);
            let pid = ExternalPid::new(Atom::new("peer@peerhost"), 1, 2, 3);
            let me = ExternalPid::new(Atom::new(p.local_name.as_str()), 4, 5, 6);
            let rf = ExternalReference::new(Atom::new(p.local_name.as_str()), 1, vec![1, 2, 3]);
            let r1 = conn.send_message(me.clone(), pid.clone(), OwnedTerm::Atom(Atom::new("x"))).await;
            let r2 = conn.send_to_name(me.clone(), Atom::new("rex"), OwnedTerm::Nil).await;
            let r3 = conn.link(&me, &pid).await;
            let r4 = conn.unlink(&me, &pid, 9).await;
            let r5 = conn.monitor(&me, &pid, &rf).await;
            let r6 = conn.demonitor(&me, &pid, &rf).await;
            let r7 = conn.send_raw(b"zz").await;
            let r8 = conn.receive_message().await.map(|_| ());
            if [&r1, &r2, &r3, &r4, &r5, &r6, &r7, &r8].iter().any(|r| r.is_ok()) {
                w.violation("send-before-connected", "a send/receive operation returned Ok on a connection that is not connected".to_string());
            }
            tokio::time::sleep(Duration::from_millis(worst + 200)).await;
            let after = l.c2s.as_ref().map(|c| c.total_written()).unwrap_or(0);
            if after != before {
                w.violation("send-before-connected", format!("{} bytes reached the peer from operations on a connection that is not connected", after - before));
            }
        }
    }
}

// ---------------------------------------------------------------------------
// API histories against a reference model
// ---------------------------------------------------------------------------

fn api_history(w: &Arc<World>, p: &Plan) {
    let mut sm = HandshakeStateMachine::new(p.local_name.clone(), "peer@peerhost".to_string(), p.cookie.clone(), DistributionFlags::new(p.local_flags), p.creation);
    // reference model
    let mut latest_issued: Option<u32> = None; // challenge this side issued in the handshake in progress
    let mut latest_theirs: Option<(u32, u64)> = None; // peer challenge + flags of that message
    let mut proof = false;
    let mut all_issued: Vec<u32> = Vec::new();
    let mut issued_seen = 0usize;
    for (i, s) in p.steps.iter().enumerate() {
        let before = sm.state();
        let desc;
        match s.op.as_str() {
            "begin" => {
                let r = sm.begin_connect();
                desc = format!("begin_connect -> {}", r.is_ok());
            }
            "name" => {
                let r = sm.prepare_send_name();
                if let Ok(bytes) = &r {
                    let body = &bytes[2..];
                    let ok = bytes.len() >= 2
                        && usize::from(u16::from_be_bytes([bytes[0], bytes[1]])) == body.len()
                        && wire::parse_send_name(body)
                            .map(|n| {
                                n.name == p.local_name.as_bytes()
                                    && if n.new_format { n.flags == p.local_flags && n.creation == Some(p.creation) } else { n.flags == u64::from(p.local_flags as u32) }
                            })
                            .unwrap_or(false);
                    if !ok {
                        w.violation("name-layout", format!("prepare_send_name produced {}", wire::hex(bytes)));
                    }
                }
                desc = format!("prepare_send_name -> {}", r.is_ok());
            }
            "status" => {
                let long = long_status(s.challenge, s.flags as u32);
                let text = if s.arg >= 12 { long.as_str() } else { ["ok", "ok_simultaneous", "nok", "not_allowed", "alive", "bogus", "", "ok"][(s.arg % 8) as usize] };
                let mut data = wire::hs_status(text);
                if s.arg == 6 {
                    data.clear();
                }
                let r = sm.handle_status(&data);
                let want_ok = matches!(text, "ok" | "ok_simultaneous") && s.arg != 6;
                if r.is_ok() && !want_ok {
                    w.violation("status-handling", format!("handle_status({:?}) returned Ok", text.chars().take(40).collect::<String>()));
                }
                if r.is_err() && want_ok {
                    w.stat("c04.valid_input_rejected");
                }
                desc = format!("handle_status({}) -> {}", text.chars().take(12).collect::<String>(), r.is_ok());
            }
            "complement" => {
                let r = sm.prepare_complement();
                if let Ok(bytes) = &r {
                    let ok = bytes.len() == 11 && bytes[..2] == [0, 9] && wire::parse_complement(&bytes[2..]) == Ok(((p.local_flags >> 32) as u32, p.creation));
                    if !ok {
                        w.violation("complement-layout", format!("prepare_complement produced {}", wire::hex(bytes)));
                    }
                }
                desc = format!("prepare_complement -> {}", r.is_ok());
            }
            "challenge" => {
                let valid = s.arg % 4 != 3;
                let mut data = wire::hs_challenge(s.flags, s.challenge, 77, "peer@peerhost");
                if !valid {
                    data.truncate(9);
                }
                let r = sm.handle_challenge(&data);
                let issued_now = w.challenges_issued();
                if r.is_ok() {
                    if !valid {
                        w.violation("challenge-handling", "a truncated challenge was accepted".to_string());
                    }
                    latest_theirs = Some((s.challenge, s.flags));
                    proof = false;
                    if issued_now.len() == issued_seen {
                        // no challenge drawn at this step: whichever step draws it is picked up below
                        w.stat("c04.challenge_not_drawn_in_handle_challenge");
                    }
                } else if valid {
                    w.stat("c04.valid_input_rejected");
                }
                desc = format!("handle_challenge(valid={}) -> {}", valid, r.is_ok());
            }
            "reply" => {
                let r = sm.prepare_challenge_reply();
                match (&r, latest_issued, latest_theirs) {
                    (Ok(bytes), Some(ours), Some((theirs, _))) => {
                        let ok = bytes.len() == 23 && bytes[..2] == [0, 21] && wire::parse_reply(&bytes[2..]) == Ok((ours, wire::digest(&p.cookie, theirs)));
                        if !ok {
                            w.violation("reply-layout", format!("prepare_challenge_reply produced {} (expected challenge {} and MD5(cookie ++ {}))", wire::hex(bytes), ours, theirs));
                        }
                    }
                    (Ok(_), _, None) => w.violation("reply-without-challenge", "prepare_challenge_reply succeeded although no peer challenge has been handled since the last disconnect".to_string()),
                    (Ok(_), None, Some(_)) => w.stat("c04.reply_before_own_challenge_known"),
                    _ => {}
                }
                desc = format!("prepare_challenge_reply -> {}", r.is_ok());
            }
            "ack" => {
                // which digest does the "peer" present?
                let kind = s.arg % 8;
                // what a challenge field holds before any challenge has been issued, in whatever way it is kept
                let unset = [0u32, 0, u32::MAX, 1][(s.challenge % 4) as usize];
                let digest: Option<[u8; 16]> = match kind {
                    0 | 1 => Some(wire::digest(&p.cookie, latest_issued.unwrap_or(unset))),
                    6 => Some(wire::digest(&p.cookie, unset)),
                    2 => {
                        // stale: a challenge issued earlier (before the latest, possibly before a disconnect)
                        let older: Vec<u32> = all_issued.iter().copied().filter(|c| Some(*c) != latest_issued).collect();
                        match older.last() {
                            Some(c) => Some(wire::digest(&p.cookie, *c)),
                            None => Some(wire::digest(&p.cookie, s.challenge)),
                        }
                    }
                    3 => latest_theirs.map(|(c, _)| wire::digest(&p.cookie, c)),
                    4 => Some(wire::digest(&format!("{}!", p.cookie), latest_issued.unwrap_or(0))),
                    5 => latest_issued.map(|c| near_miss_digest(&wire::digest(&p.cookie, c), s.flags as u32, s.challenge, s.challenge >> 8)),
                    _ => None,
                };
                let data = match digest {
                    Some(d) => wire::hs_ack(&d),
                    None => vec![b'a', 1, 2, 3],
                };
                let r = sm.handle_challenge_ack(&data);
                let is_proof = match (digest, latest_issued) {
                    (Some(d), Some(c)) => d == wire::digest(&p.cookie, c),
                    _ => false,
                };
                if r.is_ok() && !is_proof {
                    w.violation("connected-without-proof", format!("step {}: handle_challenge_ack accepted a digest (kind {}) that is not MD5(cookie ++ the challenge issued in this handshake)", i, kind));
                }
                if r.is_err() && is_proof {
                    // refusing a correct proof is not forbidden by C04; counted only
                    w.stat("c04.valid_input_rejected");
                }
                if r.is_err() && latest_issued.is_none() && matches!(kind, 0 | 1 | 6) {
                    w.stat("probe.c04.digest_of_an_unset_challenge_rejected");
                }
                if r.is_ok() && is_proof {
                    proof = true;
                    w.stat("probe.c04.api_connected");
                }
                if r.is_err() && kind == 2 {
                    w.stat("probe.c04.stale_ack_rejected");
                }
                desc = format!("handle_challenge_ack(kind {}) -> {}", kind, r.is_ok());
            }
            _ => {
                sm.disconnect();
                latest_issued = None;
                latest_theirs = None;
                proof = false;
                if sm.state() != ConnectionState::Disconnected || sm.negotiated_flags().is_some() {
                    w.violation("disconnect-state", "disconnect() left state or negotiated flags behind".to_string());
                }
                desc = "disconnect".to_string();
            }
        }
        // whichever step drew a challenge from the (seeded) source, it is the one now in force
        let issued_now = w.challenges_issued();
        if issued_now.len() > issued_seen {
            all_issued.extend_from_slice(&issued_now[issued_seen..]);
            latest_issued = issued_now.last().copied();
            issued_seen = issued_now.len();
        }
        w.ev(format!("step {} {} : {} -> {}", i, desc, before, sm.state()));
        // Invariants after every step
        if sm.state() == ConnectionState::Connected {
            if !proof {
                w.violation("connected-without-proof", format!("after step {} ({}) the state is connected without an accepted proof since the last disconnect", i, desc));
            }
            if let Some((_, pf)) = latest_theirs {
                let want = pf & p.local_flags;
                if sm.negotiated_flags().map(|f| f.as_u64()) != Some(want) {
                    w.violation("flags-not-intersection", format!("connected with negotiated flags {:?}, expected {:#x}", sm.negotiated_flags().map(|f| f.as_u64()), want));
                }
            }
        }
    }
}
