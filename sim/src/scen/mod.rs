pub mod c04;
pub mod c05;
pub mod c06;
pub mod c07;
pub mod c09;
pub mod c14;
pub mod c16n;
pub mod c17;
pub mod c18;
pub mod c18b;
pub mod c19;

use crate::runner::Scenario;

pub fn by_id(id: &str) -> Option<Box<dyn Scenario>> {
    match id {
        "C04" => Some(Box::new(c04::C04)),
        "C05" => Some(Box::new(c05::C05)),
        "C06" => Some(Box::new(c06::C06)),
        "C07" => Some(Box::new(c07::C07)),
        "C09" => Some(Box::new(c09::C09)),
        "C14" => Some(Box::new(c14::C14)),
        "C16N" => Some(Box::new(c16n::C16N)),
        "C17" => Some(Box::new(c17::C17)),
        "C18" => Some(Box::new(c18::C18)),
        "C19" => Some(Box::new(c19::C19)),
        _ => None,
    }
}

pub const ALL: &[&str] = &["C04", "C05", "C06", "C07", "C09", "C14", "C17", "C18", "C19"];
