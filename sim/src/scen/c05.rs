//! C05 — framing is invariant under how the transport splits the byte stream.

use crate::alloc::{max_request, reset_max_request};
use crate::core::{Rng, Tape, World, execute};
use crate::net::{Chunking, EndCfg, pipe};
use crate::runner::{Info, RunOutput, Scenario, Tier, finish};
use crate::wire;
use edp_client::framing::{FrameMode, MessageDeframer, MessageFramer};
use serde::{Deserialize, Serialize};
use serde_json::Value;
use std::sync::Arc;
use std::time::Duration;
use tokio::io::{AsyncReadExt, AsyncWriteExt};

const FRAMING_CAP: u64 = 256 * 1024 * 1024;
const NODE_CAP: u64 = 64 * 1024 * 1024;

#[derive(Clone, Debug, Serialize, Deserialize, Default)]
struct Plan {
    /// "stream" | "exhaustive" | "fault" | "nodeloop" | "handover" | "nodeidle" | "reuse"
    kind: String,
    /// true = 2-byte prefix (handshake), false = 4-byte (distribution)
    #[serde(default)]
    handshake_mode: bool,
    /// message lengths; contents derive from fill_seed
    #[serde(default)]
    lens: Vec<u32>,
    #[serde(default)]
    fill_seed: u64,
    /// read through FramedTransport (with its timeout) instead of the bare deframer
    #[serde(default)]
    via_transport: bool,
    #[serde(default)]
    writer: EndCfg,
    #[serde(default)]
    reader: EndCfg,
    #[serde(default)]
    feeder: EndCfg,
    /// feeder cuts the stream every `cut_every` bytes (0 = one write) and pauses up to `gap_ms`
    #[serde(default)]
    cut_every: u32,
    #[serde(default)]
    gap_ms: u32,
    #[serde(default)]
    cap: u32,
    /// fault kind: "eof" | "reset" | "overcap" | "atcap"
    #[serde(default)]
    fault: String,
    /// eof/reset: stream offset at which the peer stops; overcap: declared length minus the cap
    #[serde(default)]
    fault_at: u64,
}

pub struct C05;

fn msg_bytes(seed: u64, i: usize, len: u32) -> Vec<u8> {
    let mut r = Rng::new(seed ^ (i as u64).wrapping_mul(0x9e37));
    let mut v = r.bytes(len as usize);
    // make every message self-describing for attribution
    if !v.is_empty() {
        v[0] = i as u8;
    }
    v
}

fn expected_stream(p: &Plan) -> (Vec<Vec<u8>>, Vec<u8>) {
    let msgs: Vec<Vec<u8>> = p.lens.iter().enumerate().map(|(i, l)| msg_bytes(p.fill_seed, i, clamp_len(p, *l))).collect();
    let mut stream = Vec::new();
    for m in &msgs {
        stream.extend_from_slice(&if p.handshake_mode { wire::frame2(m) } else { wire::frame4(m) });
    }
    (msgs, stream)
}

fn clamp_len(p: &Plan, l: u32) -> u32 {
    if p.handshake_mode { l.min(65535) } else { l.min(300_000) }
}

fn mode(p: &Plan) -> FrameMode {
    if p.handshake_mode { FrameMode::Handshake } else { FrameMode::Distribution }
}

fn gen_cfg(r: &mut Rng, side_reader: bool) -> EndCfg {
    EndCfg {
        chunking: *r.pick(&[Chunking::Whole, Chunking::Random, Chunking::Random, Chunking::Byte]),
        spurious_16: if side_reader { *r.pick(&[0, 0, 2, 6]) } else { 0 },
        stall_16: if side_reader { 0 } else { *r.pick(&[0, 0, 2, 6]) },
        short_writes: !side_reader && r.chance(1, 2),
        latency_ms: *r.pick(&[0, 0, 1, 5, 50]),
        max_delay_ms: *r.pick(&[0, 1, 5, 50]),
    }
}

fn gen_lens(r: &mut Rng, handshake: bool, n: usize, small_only: bool) -> Vec<u32> {
    (0..n)
        .map(|_| {
            if small_only {
                return r.below(4) as u32;
            }
            match r.below(16) {
                0 => 0,
                1 => 1,
                2 => 2,
                3 => 65535,
                4 => if handshake { 65534 } else { 65536 },
                5 => if handshake { 255 } else { 65537 },
                6 => r.range(1000, 262_144) as u32,
                _ => r.below(80) as u32,
            }
        })
        .collect()
}

impl Scenario for C05 {
    fn id(&self) -> &'static str {
        "C05"
    }

    fn runs(&self, tier: Tier) -> u64 {
        match tier {
            Tier::Quick => 30_000,
            Tier::Thorough => 1_000_000,
        }
    }

    fn gen_plan(&self, r: &mut Rng, _tier: Tier, _index: u64) -> Value {
        let kind = match r.below(12) {
            0 => "exhaustive",
            1 | 2 | 3 => "fault",
            4 | 5 => "nodeloop",
            6 => "handover",
            7 => if r.chance(1, 3) { "reuse" } else { "nodeidle" },
            _ => "stream",
        };
        let handshake = kind != "nodeloop" && kind != "handover" && kind != "nodeidle" && r.chance(1, 2);
        let _ = "reuse may run in either mode";
        let n = match kind {
            "exhaustive" => r.range(1, 3) as usize,
            _ => r.range(1, 8) as usize,
        };
        let mut p = Plan {
            kind: kind.to_string(),
            handshake_mode: handshake,
            lens: gen_lens(r, handshake, n, kind == "exhaustive"),
            fill_seed: r.next_u64(),
            via_transport: kind == "stream" && r.chance(1, 3),
            writer: gen_cfg(r, false),
            reader: gen_cfg(r, true),
            feeder: EndCfg { latency_ms: *r.pick(&[0, 0, 1, 5]), ..Default::default() },
            cut_every: *r.pick(&[0, 1, 2, 3, 5, 7, 100, 4096]),
            gap_ms: *r.pick(&[0, 0, 1, 20]),
            cap: *r.pick(&[0, 0, 1, 3, 64, 4096]),
            fault: String::new(),
            fault_at: 0,
        };
        // keep per-byte work bounded: big messages only with coarse chunking
        let fine = p.reader.chunking == Chunking::Byte || (p.cut_every > 0 && p.cut_every < 100) || p.cap > 0 && p.cap < 64;
        if fine {
            for l in p.lens.iter_mut() {
                if *l > 3000 {
                    *l = 256 + *l % 2000;
                }
            }
        }
        if kind == "nodeidle" {
            // quiet periods beyond the read timeout, then a length prefix that arrives in two pieces
            p.lens = (0..n).map(|_| *r.pick(&[0u32, 1, 10, 300])).collect();
            p.gap_ms = *r.pick(&[100u32, 400, 1000, 10_000]);
            p.cut_every = 0;
            p.cap = 0;
            p.feeder = EndCfg::default();
            p.reader = EndCfg { chunking: *r.pick(&[Chunking::Whole, Chunking::Random, Chunking::Byte]), ..Default::default() };
        }
        if kind == "nodeloop" {
            // decides the extras of the node loop: an over-long length at the end, a large non-message frame
            p.fault_at = r.below(3_000_000);
        }
        if kind == "nodeloop" || kind == "handover" {
            // lengths here are payload binary sizes
            p.lens = (0..n).map(|_| *r.pick(&[0u32, 0, 1, 10, 300, if fine { 3000 } else { 70_000 }])).collect();
            if !fine && p.cut_every == 0 && p.cap == 0 && p.reader.chunking != Chunking::Byte && r.chance(1, 8) {
                // one frame whose length needs all four bytes of the prefix (above 2^24), well below the 64 MiB cap
                let i = r.below(n as u64) as usize;
                p.lens[i] = (1 << 24) + r.below(200_000) as u32;
            }
        }
        if kind == "fault" {
            p.fault = (*r.pick(&["eof", "eof", "reset", "overcap", "overcap", "atcap"])).to_string();
            let (_, stream) = expected_stream(&p);
            p.fault_at = match p.fault.as_str() {
                "overcap" => {
                    let any = r.below((u32::MAX as u64) - FRAMING_CAP) + 1;
                    *r.pick(&[1u64, 2, 1 << 20, (u32::MAX as u64) - FRAMING_CAP, any])
                }
                "atcap" => 0,
                _ => r.below(stream.len() as u64 + 1),
            };
            if p.fault == "overcap" || p.fault == "atcap" {
                p.handshake_mode = false;
            }
        }
        serde_json::to_value(p).unwrap()
    }

    fn run(&self, plan: &Value, tape: Tape, keep: bool) -> RunOutput {
        let p: Plan = match serde_json::from_value(plan.clone()) {
            Ok(p) => p,
            Err(_) => return RunOutput::default(),
        };
        let world = World::new(tape, keep, p.fill_seed);
        let nontrivial = p.kind != "stream" || p.reader.chunking != Chunking::Whole || p.writer.short_writes || p.cut_every > 0;
        let ex = execute(&world, 3_600_000, |w| async move {
            match p.kind.as_str() {
                "exhaustive" => exhaustive(&w, &p).await,
                "fault" => fault(&w, &p).await,
                "nodeloop" => nodeloop(&w, &p).await,
                "handover" => handover(&w, &p).await,
                "nodeidle" => nodeidle(&w, &p).await,
                "reuse" => reuse(&w, &p).await,
                _ => stream(&w, &p).await,
            }
        });
        finish(&world, &ex, nontrivial)
    }

    fn info(&self) -> Info {
        Info {
            rule: "one run = one seeded plan (message lengths in both framing modes, writer/reader/feeder behaviour, cut policy, pipe capacity, optional fault) + one schedule tape; kinds: handover (2-byte-prefixed frames read through FramedTransport, then take_read_half and 4-byte-prefixed frames through receive_message_from_read_half, the stream possibly coalesced across the switch), stream (real framer -> simulated socket -> real deframer, optionally through FramedTransport), exhaustive (every one of the 2^(n-1) chunkings of a short stream, counted in counters.c05.chunkings_enumerated), fault (EOF/reset at a stream offset, declared length above/at the cap), nodeloop (Connection::receive_message_from_read_half). Non-trivial = anything but whole-buffer delivery; distinct = distinct (schedule signature, event-log digest).",
            components_real: &["edp_client::framing::{MessageFramer,MessageDeframer}", "edp_client::transport::FramedTransport", "edp_client::Connection::receive_message_from_read_half", "tokio timers (paused clock)", "erltf decoder (nodeloop)"],
            components_stubbed: &["TCP socket (SimNet pipe)", "peer (byte feeder / collector)"],
            assumptions: &["TCP semantics: bytes arrive in order, unmodified, until close/reset", "allocation size measured per thread by a counting global allocator"],
            fault_prefixes: &["fault.", "net."],
            expected_probes: &["probe.c05.eof_in_prefix", "probe.c05.eof_in_body", "probe.c05.eof_between_frames", "probe.c05.overcap_refused", "probe.c05.zero_len_frame", "probe.c05.len_65536", "probe.c05.handover_coalesced", "probe.c05.frame_above_16_mib", "probe.c05.idle_beyond_read_timeout", "probe.c05.prefix_in_two_pieces", "probe.c05.mode_switched_after_construction", "probe.c05.large_frame_that_is_no_message", "probe.c05.node_loop_without_timeout", "probe.c05.read_timed_out_inside_a_frame", "probe.c05.control_only_frame", "probe.c05.frame_length_multiple_of_64_kib"],
        }
    }
}

/// Writes `stream` honouring the cut policy; returns when everything is written.
async fn feed(w: &Arc<World>, mut we: crate::net::WriteEnd, stream: Vec<u8>, cut_every: u32, gap_ms: u32) -> crate::net::WriteEnd {
    let mut off = 0;
    while off < stream.len() {
        let n = if cut_every == 0 { stream.len() - off } else { (cut_every as usize).min(stream.len() - off) };
        if we.write_all(&stream[off..off + n]).await.is_err() {
            break;
        }
        off += n;
        if gap_ms > 0 && off < stream.len() {
            let d = w.draw(gap_ms + 1);
            if d > 0 {
                tokio::time::sleep(Duration::from_millis(u64::from(d))).await;
            }
        }
    }
    we
}

async fn stream(w: &Arc<World>, p: &Plan) {
    let (msgs, expect) = expected_stream(p);
    for m in &msgs {
        if m.is_empty() {
            w.stat("probe.c05.zero_len_frame");
        }
        if m.len() == 65536 {
            w.stat("probe.c05.len_65536");
        }
    }
    // Phase W: the real framer writes; an independent collector reads the bytes.
    // built for this mode, or built for the other one and switched (what a transport does after the handshake)
    let switched = p.fill_seed & 2 != 0;
    let framer = if switched {
        w.stat("probe.c05.mode_switched_after_construction");
        let mut f = MessageFramer::new(if p.handshake_mode { FrameMode::Distribution } else { FrameMode::Handshake });
        f.set_mode(mode(p));
        f
    } else {
        MessageFramer::new(mode(p))
    };
    let one_shot: Vec<u8> = msgs.iter().flat_map(|m| framer.frame_message(m)).collect();
    if one_shot != expect {
        w.violation("frame-bytes", format!("frame_message output differs from the protocol framing for lens {:?}", p.lens));
    }
    let (mut we, mut re, _ctl) = pipe(w, p.cap as usize, p.writer.clone(), EndCfg::default(), "W");
    let msgs2 = msgs.clone();
    let via_transport_w = p.via_transport;
    let wmode = mode(p);
    let w4 = w.clone();
    let early = (p.fill_seed >> 20) % 4;
    let writer = async move {
        if via_transport_w {
            // FramedTransport::write (what Connection::send_raw uses): its framer starts in handshake mode
            let (_dw, dummy_r, _c) = pipe(&w4, 0, EndCfg::default(), EndCfg::default(), "dummy-r");
            let s = edp_client::verif::TcpStream::from_parts(Box::new(dummy_r), Box::new(we));
            let mut t = edp_client::transport::FramedTransport::new(Duration::from_secs(600));
            // writes refused for want of a stream - before the first connect, or after a close - put nothing
            // on the stream the transport is given afterwards
            match early {
                1 => {
                    if t.write(b"too early").await.is_ok() {
                        return Err("FramedTransport::write without a stream returned Ok".to_string());
                    }
                    w4.stat("probe.c05.write_refused_before_connect");
                }
                2 => {
                    let (dw0, dr0, _c0) = pipe(&w4, 0, EndCfg::default(), EndCfg::default(), "dummy-0");
                    let (_dw1, dr1, _c1) = pipe(&w4, 0, EndCfg::default(), EndCfg::default(), "dummy-1");
                    t.connect(edp_client::verif::TcpStream::from_parts(Box::new(dr1), Box::new(dw0)));
                    t.set_frame_mode(wmode);
                    let _ = t.write(b"first stream").await;
                    t.close();
                    drop(dr0);
                    if t.write(b"after close").await.is_ok() {
                        return Err("FramedTransport::write after close() returned Ok".to_string());
                    }
                    w4.stat("probe.c05.write_refused_after_close");
                }
                _ => {}
            }
            t.connect(s);
            t.set_frame_mode(wmode);
            for m in &msgs2 {
                if let Err(e) = t.write(m).await {
                    return Err(format!("FramedTransport::write failed: {}", e));
                }
            }
            t.close();
            return Ok(());
        }
        for m in &msgs2 {
            if let Err(e) = framer.write_framed(&mut we, m).await {
                return Err(format!("write_framed failed: {}", e));
            }
        }
        drop(we);
        Ok(())
    };
    let collector = async {
        let mut got = Vec::new();
        let _ = re.read_to_end(&mut got).await;
        got
    };
    let (wr, got) = tokio::join!(writer, collector);
    if let Err(e) = wr {
        w.violation("write-error", e);
    }
    if got != expect {
        w.violation("streamed-bytes", format!("write_framed put {} bytes on the wire, protocol framing has {} (first difference at {:?})", got.len(), expect.len(), got.iter().zip(expect.iter()).position(|(a, b)| a != b)));
    }
    w.ev(format!("W done {} bytes", got.len()));

    // Phase R: an independent feeder writes the protocol framing; the real deframer reads.
    let (fwe, fre, _ctl) = pipe(w, p.cap as usize, p.feeder.clone(), p.reader.clone(), "R");
    let feeder = feed(w, fwe, expect.clone(), p.cut_every, p.gap_ms);
    let n = msgs.len();
    let via_transport = p.via_transport;
    let m = mode(p);
    let w2 = w.clone();
    let reader = async move {
        let mut out: Vec<Result<Vec<u8>, String>> = Vec::new();
        if via_transport {
            let (dummy_w, _dr, _c) = pipe(&w2, 0, EndCfg::default(), EndCfg::default(), "dummy");
            let s = edp_client::verif::TcpStream::from_parts(Box::new(fre), Box::new(dummy_w));
            let mut t = edp_client::transport::FramedTransport::new(Duration::from_secs(600));
            t.connect(s);
            t.set_frame_mode(m);
            for _ in 0..=n {
                out.push(t.read().await.map_err(|e| e.to_string()));
            }
        } else {
            let mut fre = fre;
            let d = if switched {
                let mut d = MessageDeframer::new(if m == FrameMode::Handshake { FrameMode::Distribution } else { FrameMode::Handshake });
                d.set_mode(m);
                d
            } else {
                MessageDeframer::new(m)
            };
            for _ in 0..=n {
                out.push(d.read_framed(&mut fre).await.map_err(|e| format!("{:?}", e.kind())));
            }
        }
        out
    };
    let (fwe, out) = tokio::join!(
        async {
            let we = feeder.await;
            drop(we); // EOF after the last frame
        },
        reader
    );
    let _ = fwe;
    for (i, m) in msgs.iter().enumerate() {
        match &out[i] {
            Ok(b) if b == m => {}
            Ok(b) => w.violation("frame-mismatch", format!("frame {} of {}: got {} bytes, expected {} (lens {:?})", i, n, b.len(), m.len(), p.lens)),
            Err(e) => w.violation("frame-error", format!("frame {} of {}: {} (lens {:?})", i, n, e, p.lens)),
        }
    }
    match &out[n] {
        Err(_) => {
            w.stat("probe.c05.eof_between_frames");
        }
        Ok(b) => w.violation("eof-as-frame", format!("read after the last frame at EOF returned Ok({} bytes)", b.len())),
    }
    w.ev(format!("R done {} frames", n));
}

async fn exhaustive(w: &Arc<World>, p: &Plan) {
    let (msgs, expect) = expected_stream(p);
    if expect.len() > 14 || expect.is_empty() {
        return;
    }
    let cuts = expect.len() - 1;
    for mask in 0u32..(1u32 << cuts) {
        let (mut we, mut re, _ctl) = pipe(w, 0, EndCfg::default(), EndCfg { chunking: Chunking::Whole, ..Default::default() }, "X");
        let d = MessageDeframer::new(mode(p));
        let expect2 = expect.clone();
        let feeder = async move {
            let mut start = 0;
            for i in 0..expect2.len() {
                let cut_here = i + 1 == expect2.len() || mask & (1 << i) != 0;
                if cut_here {
                    let _ = we.write_all(&expect2[start..=i]).await;
                    start = i + 1;
                    // let the reader see exactly this chunk
                    tokio::task::yield_now().await;
                    tokio::task::yield_now().await;
                }
            }
            drop(we);
        };
        let n = msgs.len();
        let reader = async {
            let mut out = Vec::new();
            for _ in 0..=n {
                out.push(d.read_framed(&mut re).await.map_err(|e| format!("{:?}", e.kind())));
            }
            out
        };
        let (_, out) = tokio::join!(feeder, reader);
        for (i, m) in msgs.iter().enumerate() {
            if out[i].as_ref().ok() != Some(m) {
                w.violation("frame-mismatch", format!("chunking mask {:#b} of stream {:?}: frame {} read as {:?}", mask, expect, i, out[i]));
                return;
            }
        }
        if out[n].is_ok() {
            w.violation("eof-as-frame", format!("chunking mask {:#b}: read at EOF returned Ok", mask));
            return;
        }
        w.stat("c05.chunkings_enumerated");
        w.sig(u64::from(mask));
    }
    w.ev(format!("X done {} bytes all chunkings", expect.len()));
}

async fn fault(w: &Arc<World>, p: &Plan) {
    let (msgs, expect) = expected_stream(p);
    let (fwe, mut fre, ctl) = pipe(w, p.cap as usize, p.feeder.clone(), p.reader.clone(), "F");
    let d = MessageDeframer::new(mode(p));
    match p.fault.as_str() {
        "overcap" | "atcap" => {
            let declared = if p.fault == "atcap" { FRAMING_CAP } else { (FRAMING_CAP + p.fault_at.max(1)).min(u64::from(u32::MAX)) };
            let mut stream = expect.clone();
            stream.extend_from_slice(&(declared as u32).to_be_bytes());
            let total = stream.len() as u64;
            let w2 = w.clone();
            let atcap = p.fault == "atcap";
            let feeder = async move {
                let we = feed(&w2, fwe, stream, p.cut_every, p.gap_ms).await;
                if atcap {
                    drop(we);
                    return None;
                }
                // keep the connection open and silent: a refusal must not wait for a body
                Some(we)
            };
            let w3 = w.clone();
            let reader = async move {
                let mut oks = 0;
                for m in &msgs {
                    match d.read_framed(&mut fre).await {
                        Ok(b) if &b == m => oks += 1,
                        other => {
                            w3.violation("frame-mismatch", format!("frame before the over-long one read as {:?}", other.map(|b| b.len())));
                            return;
                        }
                    }
                }
                reset_max_request();
                let r = tokio::time::timeout(Duration::from_secs(1800), d.read_framed(&mut fre)).await;
                let biggest = max_request();
                match r {
                    Err(_) => w3.violation("overcap-waits", format!("declared length {} above the cap: the read was still waiting after 30 simulated minutes", declared)),
                    Ok(Ok(b)) => w3.violation("overcap-accepted", format!("declared length {}: returned Ok({} bytes)", declared, b.len())),
                    Ok(Err(_)) => {
                        if !atcap {
                            w3.stat("probe.c05.overcap_refused");
                            if biggest as u64 >= FRAMING_CAP {
                                w3.violation("overcap-allocated", format!("declared length {}: a buffer of {} bytes was requested before refusing", declared, biggest));
                            }
                        } else {
                            w3.stat("probe.c05.atcap_eof_error");
                        }
                    }
                }
                let _ = oks;
                if ctl.total_read() != total {
                    w3.violation("overcap-consumed", format!("consumed {} bytes, the stream had {}", ctl.total_read(), total));
                }
            };
            let (we, _) = tokio::join!(feeder, reader);
            drop(we);
        }
        kind => {
            // Peer stops at `fault_at`: EOF (orderly) or reset (abortive).
            let at = (p.fault_at as usize).min(expect.len());
            let part = expect[..at].to_vec();
            let reset = kind == "reset";
            let ctl2 = ctl.clone();
            let w2 = w.clone();
            let feeder = async move {
                let we = feed(&w2, fwe, part, p.cut_every, p.gap_ms).await;
                if reset {
                    // give in-flight bytes a chance (or not): decided by the tape
                    if w2.chance(8, 16) {
                        tokio::time::sleep(Duration::from_millis(100)).await;
                    }
                    ctl2.reset();
                    w2.stat("fault.reset");
                } else {
                    w2.stat("fault.eof");
                }
                drop(we);
            };
            // classify the offset
            let mut off = 0usize;
            let pre = if p.handshake_mode { 2 } else { 4 };
            let mut complete = 0usize;
            let mut class = "between";
            for m in &msgs {
                let end = off + pre + m.len();
                if at >= end {
                    complete += 1;
                    off = end;
                    continue;
                }
                if at > off && at < off + pre {
                    class = "prefix";
                } else if at >= off + pre && at < end && at > off {
                    class = "body";
                }
                break;
            }
            let w3 = w.clone();
            let n = msgs.len();
            let reader = async move {
                let mut got = Vec::new();
                for _ in 0..=n {
                    let r = d.read_framed(&mut fre).await;
                    let stop = r.is_err();
                    got.push(r.map_err(|e| format!("{:?}", e.kind())));
                    if stop {
                        break;
                    }
                }
                if got.last().map(|r| r.is_ok()).unwrap_or(true) {
                    w3.violation("eof-as-frame", format!("stream cut at {} ({}): the last read returned Ok", at, class));
                }
                let oks: Vec<&Vec<u8>> = got.iter().filter_map(|r| r.as_ref().ok()).collect();
                for (i, b) in oks.iter().enumerate() {
                    if i >= msgs.len() || *b != &msgs[i] {
                        w3.violation("short-frame", format!("stream cut at {} ({}): read {} returned {} bytes, which is not message {} ({} bytes)", at, class, i, b.len(), i, msgs.get(i).map(|m| m.len()).unwrap_or(0)));
                        return;
                    }
                }
                if !reset && oks.len() != complete {
                    w3.violation("frame-lost", format!("stream cut at {} ({}): {} complete frames were sent, {} returned", at, class, complete, oks.len()));
                }
                if reset && oks.len() > complete {
                    w3.violation("short-frame", format!("reset at {}: more frames returned than were complete", at));
                }
                if !reset {
                    match class {
                        "prefix" => w3.stat("probe.c05.eof_in_prefix"),
                        "body" => w3.stat("probe.c05.eof_in_body"),
                        _ => w3.stat("probe.c05.eof_between_frames"),
                    }
                }
            };
            tokio::join!(feeder, reader);
        }
    }
    w.ev("F done");
}

/// The second copy of the read loop: Connection::receive_message_from_read_half.
async fn nodeloop(w: &Arc<World>, p: &Plan) {
    use crate::conv::to_val;
    use crate::wire::Val;
    let mut r = Rng::new(p.fill_seed);
    let mut stream = Vec::new();
    let mut expect: Vec<Option<(Val, Val)>> = Vec::new();
    // a large frame that is not a message (first byte not 112) somewhere in the stream: an error for that
    // frame, the frames after it intact
    let big_junk_at = if p.cap == 0 && p.cut_every == 0 && p.reader.chunking != Chunking::Byte && p.fault_at % 5 == 2 { Some((p.fault_at / 5) as usize % p.lens.len().max(1)) } else { None };
    for (i, l) in p.lens.iter().enumerate() {
        // ticks in between must be skipped
        if r.chance(1, 3) {
            stream.extend_from_slice(&wire::frame4(&[]));
            w.stat("probe.c05.zero_len_frame");
        }
        if big_junk_at == Some(i) {
            let mut junk = if p.fault_at % 70 == 2 {
                // exactly the largest frame the node loop takes (64 MiB): an error for its content, not for its length
                w.stat("probe.c05.frame_of_exactly_the_node_loop_cap");
                vec![0u8; 64 * 1024 * 1024]
            } else {
                r.bytes((1 << 20) + 1 + (p.fault_at % 700_000) as usize)
            };
            junk[0] = *r.pick(&[131u8, 0, 111, 113, 255]);
            stream.extend_from_slice(&wire::frame4(&junk));
            expect.push(None);
            w.stat("probe.c05.large_frame_that_is_no_message");
        }
        let ctl = Val::tuple(vec![Val::int(2), Val::atom(""), wire::gen_pid(&mut r, Some("sut@host"))]);
        let mut body = r.bytes((*l).min(20_000_000) as usize);
        if body.len() > (1 << 24) {
            w.stat("probe.c05.frame_above_16_mib");
        }
        if !body.is_empty() {
            body[0] = i as u8;
        }
        let mut msg = Val::tuple(vec![Val::int(i as i128), Val::Bin(body.clone())]);
        // frames whose total length is a round number (a multiple of 64 KiB, 4 KiB, 1 KiB or 1 MiB): whoever
        // reads a body in pieces of such a size meets an empty last piece
        if *l >= 900 && *l < 4_000_000 && r.chance(1, 2) {
            let calm = p.reader.chunking != Chunking::Byte && p.cut_every == 0 && (p.cap == 0 || p.cap >= 4096);
            // (a megabyte through a byte-at-a-time reader or a one-byte pipe with pauses would outlast the loop's ten minutes)
            let unit = if calm { *r.pick(&[1usize << 16, 1 << 16, 1 << 12, 1 << 10, 1 << 20]) } else { *r.pick(&[1usize << 12, 1 << 10]) };
            let have = wire::pass_through(&ctl, Some(&msg)).len();
            let target = have.div_ceil(unit) * unit;
            body.extend(std::iter::repeat(0x5a).take(target - have));
            msg = Val::tuple(vec![Val::int(i as i128), Val::Bin(body)]);
            if wire::pass_through(&ctl, Some(&msg)).len() == target {
                w.stat(if unit == 1 << 16 { "probe.c05.frame_length_multiple_of_64_kib" } else { "c05.frame_length_round" });
            }
        }
        stream.extend_from_slice(&wire::frame4(&wire::pass_through(&ctl, Some(&msg))));
        expect.push(Some((ctl, msg)));
        // a message that consists of its control tuple alone (LINK), usually much shorter than its neighbours
        if r.chance(1, 3) {
            let link = Val::tuple(vec![Val::int(1), wire::gen_pid(&mut r, Some("peer@host")), wire::gen_pid(&mut r, Some("sut@host"))]);
            stream.extend_from_slice(&wire::frame4(&wire::pass_through(&link, None)));
            expect.push(Some((link, Val::atom("$no_payload"))));
            w.stat("probe.c05.control_only_frame");
        }
    }
    let overcap = p.fault_at % 3 == 1;
    if overcap {
        let declared = NODE_CAP + 1 + (p.fault_at % 1000);
        stream.extend_from_slice(&(declared as u32).to_be_bytes());
    }
    let (fwe, fre, _ctl) = pipe(w, p.cap as usize, p.feeder.clone(), p.reader.clone(), "N");
    let w2 = w.clone();
    let feeder = async move {
        let we = feed(&w2, fwe, stream, p.cut_every, p.gap_ms).await;
        if overcap { Some(we) } else { None }
    };
    let w3 = w.clone();
    // the loop's read timeout: ten minutes, or none at all
    let node_timeout = if p.fill_seed & 4 != 0 { Duration::MAX } else { Duration::from_secs(600) };
    if node_timeout == Duration::MAX {
        w.stat("probe.c05.node_loop_without_timeout");
    }
    let reader = async move {
        let mut half = edp_client::verif::OwnedReadHalf::from_box(Box::new(fre));
        for (i, item) in expect.iter().enumerate() {
            let r = edp_client::Connection::receive_message_from_read_half(&mut half, node_timeout).await;
            let Some((ctl, msg)) = item else {
                match r {
                    Ok(_) => {
                        w3.violation("junk-accepted", format!("node loop: a frame of more than 1 MiB that is no message was returned as message {}", i));
                        return;
                    }
                    Err(edp_client::Error::Io(e)) => {
                        w3.violation("frame-error", format!("node loop: a large frame that is no message ended in an I/O error: {}", e));
                        return;
                    }
                    Err(_) => continue,
                }
            };
            match r {
                Ok((c, m)) => {
                    let cv = to_val(&c.to_term());
                    let mv = m.as_ref().map(to_val);
                    let want_payload = if *msg == Val::atom("$no_payload") { None } else { Some(msg) };
                    if &cv != ctl || mv.as_ref() != want_payload {
                        w3.violation("frame-mismatch", format!("node loop: message {} came back as {} / {:?}", i, cv.short(), mv.map(|v| v.short())));
                        return;
                    }
                }
                Err(e) => {
                    w3.violation("frame-error", format!("node loop: message {}: {}", i, e));
                    return;
                }
            }
        }
        reset_max_request();
        let r = tokio::time::timeout(Duration::from_secs(1800), edp_client::Connection::receive_message_from_read_half(&mut half, node_timeout)).await;
        match r {
            Ok(Err(_)) => {
                if overcap {
                    w3.stat("probe.c05.overcap_refused");
                    if max_request() as u64 >= NODE_CAP {
                        w3.violation("overcap-allocated", format!("node loop: {} bytes requested before refusing an over-long frame", max_request()));
                    }
                } else {
                    w3.stat("probe.c05.eof_between_frames");
                }
            }
            Ok(Ok(_)) => w3.violation("eof-as-frame", "node loop: read past the end returned Ok".to_string()),
            Err(_) => w3.violation("overcap-waits", "node loop: still waiting 30 simulated minutes after an over-long length / EOF".to_string()),
        }
    };
    let (we, _) = tokio::join!(feeder, reader);
    drop(we);
    w.ev("N done");
}


/// The node's read loop with a short read timeout: any quiet period is allowed before a frame, and a
/// frame whose length prefix arrives in two pieces (the pause between them below the timeout) is still one frame.
async fn nodeidle(w: &Arc<World>, p: &Plan) {
    use crate::conv::to_val;
    use crate::wire::Val;
    use tokio::io::AsyncWriteExt;
    let t_ms = u64::from(p.gap_ms);
    if t_ms < 100 || p.cap != 0 || p.cut_every != 0 || p.reader.latency_ms != 0 || p.reader.spurious_16 != 0 || p.reader.stall_16 != 0 || p.feeder != EndCfg::default() {
        return; // not a plan the generator makes (the timing margins below assume a calm link)
    }
    let mut r = Rng::new(p.fill_seed);
    // (idle before the frame, bytes of the prefix in the first piece, pause, frame)
    let mut script: Vec<(u64, usize, u64, Vec<u8>)> = Vec::new();
    let mut expect: Vec<(Val, Val)> = Vec::new();
    for (i, l) in p.lens.iter().enumerate() {
        if r.chance(1, 3) {
            script.push((r.below(3 * t_ms), r.range(1, 3) as usize, t_ms / 4 + r.below(t_ms / 2), wire::frame4(&[])));
        }
        let ctl = Val::tuple(vec![Val::int(2), Val::atom(""), wire::gen_pid(&mut r, Some("sut@host"))]);
        let msg = Val::tuple(vec![Val::int(i as i128), Val::Bin(r.bytes((*l).min(3000) as usize))]);
        let idle = match r.below(4) {
            0 => 0,
            1 => t_ms / 2,
            _ => t_ms + r.below(4 * t_ms),
        };
        let pause = if r.chance(1, 5) { 0 } else { t_ms / 4 + r.below(t_ms / 2) };
        script.push((idle, r.range(1, 3) as usize, pause, wire::frame4(&wire::pass_through(&ctl, Some(&msg)))));
        expect.push((ctl, msg));
    }
    let (mut fwe, fre, _ctl) = pipe(w, 0, p.feeder.clone(), p.reader.clone(), "I");
    let w2 = w.clone();
    let feeder = async move {
        for (idle, split, pause, frame) in script {
            if idle > 0 {
                tokio::time::sleep(Duration::from_millis(idle)).await;
                if idle >= t_ms {
                    w2.stat("probe.c05.idle_beyond_read_timeout");
                }
            }
            let split = split.min(frame.len());
            let _ = fwe.write_all(&frame[..split]).await;
            if pause > 0 {
                w2.stat("probe.c05.prefix_in_two_pieces");
                tokio::time::sleep(Duration::from_millis(pause)).await;
            }
            let _ = fwe.write_all(&frame[split..]).await;
        }
        fwe
    };
    let w3 = w.clone();
    let reader = async move {
        let mut half = edp_client::verif::OwnedReadHalf::from_box(Box::new(fre));
        for (i, (ctl, msg)) in expect.iter().enumerate() {
            match edp_client::Connection::receive_message_from_read_half(&mut half, Duration::from_millis(t_ms)).await {
                Ok((c, m)) => {
                    if &to_val(&c.to_term()) != ctl || m.as_ref().map(to_val).as_ref() != Some(msg) {
                        w3.violation("frame-mismatch", format!("node loop with quiet periods: message {} came back different", i));
                        return;
                    }
                }
                Err(e) => {
                    w3.violation("frame-error", format!("node loop with quiet periods (read timeout {} ms; every pause inside a frame is below three quarters of it): message {}: {}", t_ms, i, e));
                    return;
                }
            }
        }
    };
    let (we, _) = tokio::join!(feeder, reader);
    drop(we);
    w.ev("I done");
}

/// One FramedTransport, two streams: a read on the first stream times out in the middle of a frame (the
/// peer stalls with the socket open), the transport is closed and connected to a fresh stream; what is read
/// from the second stream is exactly what was written to it.
async fn reuse(w: &Arc<World>, p: &Plan) {
    use tokio::io::AsyncWriteExt;
    let (msgs, expect) = expected_stream(p);
    if msgs.is_empty() {
        return;
    }
    let m = mode(p);
    let mut r = Rng::new(p.fill_seed ^ 0x7e05e);
    // first stream: some whole frames, then a frame cut somewhere (inside the prefix or the body)
    let first_len = r.range(1, 40) as usize;
    let first_body = r.bytes(first_len);
    let first = if m == FrameMode::Handshake { wire::frame2(&first_body) } else { wire::frame4(&first_body) };
    let cut = 1 + r.below(first.len() as u64 - 1) as usize;
    let (mut we1, re1, _c1) = pipe(w, 0, EndCfg::default(), EndCfg { chunking: p.reader.chunking, ..Default::default() }, "U1");
    let (dw1, _dr1, _c) = pipe(w, 0, EndCfg::default(), EndCfg::default(), "U1w");
    let mut t = edp_client::transport::FramedTransport::new(Duration::from_millis(2_000));
    t.connect(edp_client::verif::TcpStream::from_parts(Box::new(re1), Box::new(dw1)));
    t.set_frame_mode(m);
    let _ = we1.write_all(&first[..cut]).await;
    match t.read().await {
        Err(edp_client::Error::Timeout(_)) => w.stat("probe.c05.read_timed_out_inside_a_frame"),
        other => {
            w.violation("frame-error", format!("reuse: a read of a frame whose sender stalled after {} of {} bytes returned {:?} instead of a timeout", cut, first.len(), other.map(|b| b.len()).map_err(|e| e.to_string())));
            return;
        }
    }
    t.close();
    drop(we1);
    // second stream
    // (a calm link: every frame arrives well within the transport's two seconds)
    let (fwe, fre, _ctl) = pipe(w, 0, EndCfg::default(), EndCfg { chunking: p.reader.chunking, ..Default::default() }, "U2");
    let (dw2, _dr2, _c) = pipe(w, 0, EndCfg::default(), EndCfg::default(), "U2w");
    t.connect(edp_client::verif::TcpStream::from_parts(Box::new(fre), Box::new(dw2)));
    t.set_frame_mode(m);
    let w2 = w.clone();
    let n = msgs.len();
    let cut_every = if p.cut_every > 0 && p.cut_every < 100 { 100 } else { p.cut_every };
    // pauses between pieces only where the whole stream still arrives within a fraction of the two seconds
    let gap_ms = if cut_every > 0 && (expect.len() as u32 / cut_every) * p.gap_ms.min(2) > 400 { 0 } else { p.gap_ms.min(2) };
    let feeder = async move {
        let we = feed(&w2, fwe, expect, cut_every, gap_ms).await;
        drop(we);
    };
    let reader = async {
        let mut out = Vec::new();
        for _ in 0..n {
            out.push(t.read().await.map_err(|e| e.to_string()));
        }
        out
    };
    let (_, out) = tokio::join!(feeder, reader);
    for (i, m) in msgs.iter().enumerate() {
        match &out[i] {
            Ok(b) if b == m => {}
            Ok(b) => {
                w.violation("frame-mismatch", format!("reuse: frame {} read from the second stream has {} bytes, {} were written (something of the first stream's unfinished frame survived close())", i, b.len(), m.len()));
                return;
            }
            Err(e) => {
                w.violation("frame-error", format!("reuse: frame {} of the second stream: {}", i, e));
                return;
            }
        }
    }
    w.ev("U done");
}

/// What a node does with a fresh connection: a few handshake-mode frames through
/// FramedTransport::read, then the read half is taken and distribution frames are read with
/// receive_message_from_read_half. Nothing may be lost at the switch however the bytes coalesce.
async fn handover(w: &Arc<World>, p: &Plan) {
    use crate::conv::to_val;
    use crate::wire::Val;
    let mut r = Rng::new(p.fill_seed);
    let n_hs = r.range(1, 3) as usize;
    let hs: Vec<Vec<u8>> = (0..n_hs).map(|i| msg_bytes(p.fill_seed, 100 + i, r.range(1, 40) as u32)).collect();
    let mut stream = Vec::new();
    for h in &hs {
        stream.extend_from_slice(&wire::frame2(h));
    }
    let mut expect: Vec<(Val, Val)> = Vec::new();
    for (i, l) in p.lens.iter().enumerate() {
        if r.chance(1, 4) {
            stream.extend_from_slice(&wire::frame4(&[]));
        }
        let ctl = Val::tuple(vec![Val::int(2), Val::atom(""), wire::gen_pid(&mut r, Some("sut@host"))]);
        let msg = Val::tuple(vec![Val::int(i as i128), Val::Bin(r.bytes((*l).min(3000) as usize))]);
        stream.extend_from_slice(&wire::frame4(&wire::pass_through(&ctl, Some(&msg))));
        expect.push((ctl, msg));
    }
    if p.cut_every == 0 {
        w.stat("probe.c05.handover_coalesced");
    }
    let (fwe, fre, _ctl) = pipe(w, p.cap as usize, p.feeder.clone(), p.reader.clone(), "H");
    let w2 = w.clone();
    let feeder = async move {
        let we = feed(&w2, fwe, stream, p.cut_every, p.gap_ms).await;
        drop(we);
    };
    let w3 = w.clone();
    let reader = async move {
        let (dummy_w, _dr, _c) = pipe(&w3, 0, EndCfg::default(), EndCfg::default(), "dummy");
        let s = edp_client::verif::TcpStream::from_parts(Box::new(fre), Box::new(dummy_w));
        let mut t = edp_client::transport::FramedTransport::new(Duration::from_secs(600));
        t.connect(s);
        for (i, h) in hs.iter().enumerate() {
            match t.read().await {
                Ok(b) if &b == h => {}
                other => {
                    w3.violation("frame-mismatch", format!("handover: handshake-mode frame {} read as {:?}", i, other.map(|b| b.len()).map_err(|e| e.to_string())));
                    return;
                }
            }
        }
        t.set_frame_mode(FrameMode::Distribution);
        let Some(mut half) = t.take_read_half() else {
            w3.violation("frame-error", "handover: take_read_half returned None".to_string());
            return;
        };
        for (i, (ctl, msg)) in expect.iter().enumerate() {
            match edp_client::Connection::receive_message_from_read_half(&mut half, Duration::from_secs(600)).await {
                Ok((c, m)) => {
                    if &to_val(&c.to_term()) != ctl || m.as_ref().map(to_val).as_ref() != Some(msg) {
                        w3.violation("frame-mismatch", format!("handover: distribution frame {} after the switch came back different (a frame was lost or altered)", i));
                        return;
                    }
                }
                Err(e) => {
                    w3.violation("frame-error", format!("handover: distribution frame {} after the switch: {}", i, e));
                    return;
                }
            }
        }
        if edp_client::Connection::receive_message_from_read_half(&mut half, Duration::from_secs(600)).await.is_ok() {
            w3.violation("eof-as-frame", "handover: read past the end returned Ok".to_string());
        }
    };
    tokio::join!(feeder, reader);
    w.ev("H done");
}
