//! C18 — local processes: ordered exactly-once delivery, exit notices, name lifecycle.

use crate::conv::{from_val, pid_val, ref_val, to_val};
use crate::core::{Rng, Tape, World, YieldCfg, execute};
use crate::nodeenv::start_node;
use crate::procs::{Got, Hist, History, RecEvent, next_seq, poison, summarize};
use crate::runner::{Info, RunOutput, Scenario, Tier, finish};
use crate::wire::Val;
use edp_node::{Message, Process};
use erltf::types::{Atom, ExternalPid, ExternalReference};
use serde::{Deserialize, Serialize};
use serde_json::Value;
use std::collections::{BTreeMap, HashMap};
use std::sync::{Arc, Mutex};
use std::time::Duration;

#[derive(Clone, Debug, Serialize, Deserialize, Default)]
struct Op {
    /// send | send_name | register | unregister | whereis | link | unlink | monitor | demonitor | kill | burst | pause
    kind: String,
    #[serde(default)]
    a: u32,
    #[serde(default)]
    b: u32,
}

#[derive(Clone, Debug, Serialize, Deserialize, Default)]
struct Plan {
    /// "procs" | "behaviours"
    kind: String,
    #[serde(default)]
    n_procs: u32,
    #[serde(default)]
    n_names: u32,
    #[serde(default)]
    tasks: Vec<Vec<Op>>,
    #[serde(default)]
    proc_stall_16: u32,
    #[serde(default)]
    yield_intensity: u32,
    #[serde(default)]
    yield_mask: u64,
    #[serde(default)]
    yield_sleep_ms: u32,
    #[serde(default)]
    salt: u64,
    /// the initial processes all carry the same process number with serials 0, 1, 2, ...: what the
    /// allocator hands out to processes spawned a full cycle (2^20 allocations) apart
    #[serde(default)]
    same_number: bool,
}

pub struct C18;

impl Scenario for C18 {
    fn id(&self) -> &'static str {
        "C18"
    }

    fn runs(&self, tier: Tier) -> u64 {
        match tier {
            Tier::Quick => 120_000,
            Tier::Thorough => 5_000_000,
        }
    }

    fn gen_plan(&self, r: &mut Rng, _tier: Tier, _index: u64) -> Value {
        let behaviours = r.chance(1, 5);
        let n_procs = r.range(2, 6) as u32;
        let n_names = r.range(1, 3) as u32;
        let n_tasks = r.range(2, 4) as usize;
        let burst_run = r.chance(1, 25);
        let mut tasks = Vec::new();
        for _ in 0..n_tasks {
            let n = r.range(2, 14) as usize;
            let mut ops = Vec::new();
            for _ in 0..n {
                let kind = match r.below(30) {
                    0..=7 => "send",
                    8..=10 => "send_name",
                    11..=13 => "register",
                    14 | 15 => "unregister",
                    16 | 17 => "whereis",
                    18..=20 => "link",
                    21 => "unlink",
                    22..=24 => "monitor",
                    25 => "demonitor",
                    26 | 27 => "kill",
                    28 => if burst_run { "burst" } else { "spawn" },
                    _ => *r.pick(&["pause", "pause", "send_stale", "monitor_stale", "link_stale"]),
                };
                ops.push(Op { kind: kind.to_string(), a: r.below(8) as u32, b: r.below(8) as u32 });
            }
            tasks.push(ops);
        }
        let mut n_procs = n_procs;
        if !behaviours && r.chance(1, 16) {
            // a watcher that is busy for seconds with a full mailbox while the process it watches fails
            n_procs = n_procs.max(3);
            let nap_s = r.range(6, 20) as u32;
            let mut t0 = vec![Op { kind: "nap".into(), a: 0, b: nap_s }, Op { kind: "burst".into(), a: 0, b: 0 }];
            let mut t1 = Vec::new();
            if r.chance(2, 3) {
                t1.push(Op { kind: "monitor".into(), a: 0, b: 1 });
            }
            if r.chance(2, 3) || t1.is_empty() {
                t1.push(Op { kind: "link".into(), a: 0, b: 1 });
            }
            t1.push(Op { kind: "wait".into(), a: r.range(1, 2000) as u32, b: 0 });
            t1.push(Op { kind: "kill".into(), a: 1, b: 0 });
            // the usual random operations around it (on the other processes' behalf as well)
            t0.extend(tasks[0].iter().take(3).cloned());
            t1.extend(tasks[1].iter().take(3).cloned());
            tasks.truncate(2);
            tasks[0] = t0;
            tasks[1] = t1;
        }
        if !behaviours && r.chance(1, 200) {
            // two monitors of one target whose references lie exactly 2^k references apart
            let k = *r.pick(&[16u32, 18, 18, 20]);
            let owner = 1 % tasks.len();
            tasks[owner].insert(0, Op { kind: "monitor_far".into(), a: 0, b: k * 8 + 1 });
            tasks[owner].push(Op { kind: "kill".into(), a: 1, b: 0 });
        }
        let p = Plan {
            kind: if behaviours { "behaviours" } else { "procs" }.to_string(),
            n_procs,
            n_names,
            tasks,
            proc_stall_16: *r.pick(&[0u32, 0, 3, 8]),
            yield_intensity: *r.pick(&[0u32, 4, 8, 12]),
            yield_mask: r.next_u64() | r.next_u64(),
            yield_sleep_ms: *r.pick(&[0u32, 1, 3]),
            salt: r.next_u64(),
            same_number: false,
        };
        let mut p = p;
        p.same_number = !behaviours && r.chance(1, 5);
        if r.chance(1, 60) {
            // a crowd of watchers around one process that fails: n_procs carries the crowd's size
            p.kind = "crowd".to_string();
            p.n_procs = r.range(17, 150) as u32;
            p.same_number = false;
        }
        serde_json::to_value(p).unwrap()
    }

    fn run(&self, plan: &Value, tape: Tape, keep: bool) -> RunOutput {
        let p: Plan = match serde_json::from_value(plan.clone()) {
            Ok(p) => p,
            Err(_) => return RunOutput::default(),
        };
        if p.kind == "crowd" {
            if p.n_procs < 1 || p.n_procs > 400 {
                return RunOutput::default();
            }
            let world = World::new(tape, keep, p.salt);
            let ex = execute(&world, 6 * 3_600_000, |w| async move { crowd(&w, &p).await });
            return finish(&world, &ex, true);
        }
        if p.n_procs < 2 || p.n_procs > 8 || p.n_names == 0 || p.n_names > 4 || p.tasks.is_empty() || p.tasks.len() > 6 {
            return RunOutput::default();
        }
        let world = World::new(tape, keep, p.salt);
        let ex = execute(&world, 6 * 3_600_000, |w| async move {
            if p.kind == "behaviours" {
                crate::scen::c18b::behaviours(&w, p.salt, p.proc_stall_16, p.yield_intensity, p.yield_mask).await;
            } else {
                procs(&w, &p).await;
            }
        });
        finish(&world, &ex, true)
    }

    fn info(&self) -> Info {
        Info {
            rule: "one run = a started real Node with 2..6 recorder processes and 1..3 names, 2..4 driver tasks each issuing a seeded history of send / send_to_name / register / unregister / whereis / link / unlink / monitor / demonitor / kill (handler failure) / burst (above mailbox capacity) / nap (a handler busy for 6..20 s, with a burst behind it, while a process it watches fails) / send, monitor and link with an identifier that has the numbers of a live process but another creation, serial or node name; recorder handlers stall on tape decisions; yield points in the mailbox loop, exit propagation and registry removal are active for a random subset of sites; every invocation and return and every handler event is stamped with one global sequence number. A fifth of the runs drive GenServerProcess / GenEventManager instead (calls, casts, infos, events, handler calls, handlers removing themselves, client processes failing while calls in their name are on their way). All runs are non-trivial; distinct = distinct (yield/handler sequence, event log).",
            components_real: &["edp_node::Node (spawn, register, unregister, whereis, registered, send, send_to_name, link, unlink, monitor, demonitor, process_count)", "edp_node::process (spawn_process, propagate_exit_signals, ProcessHandle)", "edp_node::registry", "edp_node::mailbox", "edp_node::gen_server::GenServerProcess", "edp_node::gen_event::GenEventManager", "tokio mpsc/RwLock (paused clock)"],
            components_stubbed: &["EPMD (stub; Node::start must register first)", "Process handlers (instrumented recorders; the behaviour callbacks are instrumented too)"],
            assumptions: &["link/unlink operations on one pair and monitor/demonitor operations on one (watcher, target) pair are issued by a single driver task, so their order is known; everything else is concurrent", "a process's death is an interval from the failing handler event to the drop of the process object; operations overlapping it may or may not take effect"],
            fault_prefixes: &["fault.", "proc."],
            expected_probes: &["probe.c18.crowd_of_watchers", "probe.c18.more_than_16_links", "probe.c18.more_than_16_monitors", "probe.c18.delivered", "probe.c18.exit_notified", "probe.c18.monitor_notified", "probe.c18.no_notice_after_unlink", "probe.c18.dead_pid_rejected", "probe.c18.name_of_dead_process_free", "probe.c18.name_history_linearizable", "probe.c18.send_name_delivered", "probe.c18.backpressure_burst", "probe.c18.gen_call_replied", "probe.c18.gen_event_notified", "probe.c18.spawned_mid_history", "probe.c18.stale_identifier_used", "probe.c18.notice_after_long_full_mailbox", "probe.c18.monitors_2_pow_k_references_apart", "probe.c18.call_in_the_name_of_a_failed_client", "probe.c18.sent_through_the_process_handle", "probe.c18.live_processes_with_the_same_number"],
        }
    }
}

// ---------------------------------------------------------------------------
// Recorder whose drop is visible (end of the death interval)
// ---------------------------------------------------------------------------

pub struct Rec {
    pub idx: usize,
    pub hist: Hist,
    pub world: Arc<World>,
    pub stall_16: u32,
}

impl Rec {
    fn record(&self, got: Got) {
        let mut g = self.hist.lock().unwrap();
        g.seq += 1;
        let seq = g.seq;
        g.events.push(RecEvent { seq, t_ms: World::now_ms(), proc_idx: self.idx, got });
    }
    async fn maybe_stall(&self) {
        if self.stall_16 > 0 && self.world.chance(self.stall_16, 16) {
            self.world.stat("proc.handler_stall");
            let d = self.world.draw(4);
            if d == 0 {
                tokio::task::yield_now().await;
            } else {
                tokio::time::sleep(Duration::from_millis(u64::from(d))).await;
            }
        }
    }
}

impl Process for Rec {
    async fn handle_message(&mut self, msg: Message) -> edp_node::Result<()> {
        let got = summarize(&msg);
        self.world.sig(0x9a0c ^ (self.idx as u64) << 16);
        if matches!(&got, Got::Regular(v) if *v == poison()) {
            self.record(Got::Failed);
            self.maybe_stall().await;
            // a handler can fail with any error of the crate (for instance one it got from a send of its own)
            return Err(match self.world.draw(4) {
                0 => edp_node::Error::InvalidMessage("poison".to_string()),
                1 => edp_node::Error::MailboxClosed,
                2 => edp_node::Error::NodeNotConnected("nowhere@host".to_string()),
                _ => edp_node::Error::RpcCancelled,
            });
        }
        let nap_s = match &got {
            Got::Regular(v) => parse_body(v).map(|(_, _, n, _)| n).filter(|n| *n >= NAP_BASE).map(|n| (n - NAP_BASE) as u64),
            _ => None,
        };
        self.record(got);
        if let Some(secs) = nap_s {
            // a handler that is busy for a long time
            self.world.stat("proc.handler_nap");
            tokio::time::sleep(Duration::from_secs(secs)).await;
        }
        self.maybe_stall().await;
        Ok(())
    }

    async fn terminate(&mut self) {
        self.record(Got::Terminate);
        self.maybe_stall().await;
    }
}

/// message counter values from here on tell the handler to stay busy for (n - NAP_BASE) seconds
const NAP_BASE: usize = 5000;

/// An identifier that differs from `p` in exactly one of creation, serial, node name.
fn stale_variant(p: &ExternalPid, how: u32, far_serial: bool) -> ExternalPid {
    match how % 5 {
        4 if p.creation != 0 => ExternalPid::new(p.node.clone(), p.id, p.serial, 0),
        0 | 4 => ExternalPid::new(p.node.clone(), p.id, p.serial, p.creation.wrapping_add(1)),
        1 => ExternalPid::new(p.node.clone(), p.id, p.serial, p.creation ^ 0x8000_0000),
        2 => ExternalPid::new(p.node.clone(), p.id, p.serial.wrapping_add(if far_serial { 1000 } else { 1 }), p.creation),
        _ => ExternalPid::new(Atom::new("ghost@sim"), p.id, p.serial, p.creation),
    }
}

impl Drop for Rec {
    fn drop(&mut self) {
        self.record(Got::Other("dropped".to_string()));
    }
}

// ---------------------------------------------------------------------------
// Operation history
// ---------------------------------------------------------------------------

#[derive(Clone, Debug)]
enum Res {
    Ok,
    Err(String),
    Pid(Option<Val>),
    Ref(Val),
}

#[derive(Clone, Debug)]
struct OpRec {
    task: usize,
    k: usize,
    kind: String,
    a: usize,
    b: usize,
    inv: u64,
    ret: u64,
    res: Res,
    body: Option<Val>,
}

/// Operation index for the two halves of a monitor_far (kept apart from the plan's own indexes).
fn k_index_base(_k: u32, round: usize, n_ops: usize) -> usize {
    n_ops + 100 + round
}

fn body_for(task: usize, k: usize, n: usize, target: &str) -> Val {
    Val::tuple(vec![Val::atom("m"), Val::int(task as i128), Val::int(k as i128), Val::int(n as i128), Val::atom(target)])
}

/// One process with a crowd of 17..150 others around it, each linked to it, monitoring it, both (some monitor it
/// twice) or neither; some are let go of again (unlink, demonitor). Then it fails. Every watcher still attached
/// hears of it exactly once per link and once per monitor reference, and nobody else hears anything.
async fn crowd(w: &Arc<World>, p: &Plan) {
    let node = match start_node(w, 5).await {
        Ok(n) => Arc::new(n),
        Err(e) => {
            w.violation("HARNESS-setup", e);
            return;
        }
    };
    let hist: Hist = Arc::new(Mutex::new(History::default()));
    let n = p.n_procs as usize;
    let mut r = Rng::new(p.salt ^ 0xc20d);
    let mut pids = Vec::new();
    for i in 0..=n {
        match node.spawn(Rec { idx: i, hist: hist.clone(), world: w.clone(), stall_16: p.proc_stall_16 }).await {
            Ok(pid) => pids.push(pid),
            Err(e) => {
                w.violation("HARNESS-setup", format!("spawn: {}", e));
                return;
            }
        }
    }
    w.set_yield_cfg(YieldCfg { intensity: p.yield_intensity, site_mask: p.yield_mask, max_sleep_ms: p.yield_sleep_ms });
    let target = pids[0].clone();
    // per watcher: linked?, monitor references still in force
    let mut linked = vec![false; n + 1];
    let mut mons: Vec<Vec<ExternalReference>> = vec![Vec::new(); n + 1];
    for i in 1..=n {
        let mode = r.below(8);
        if mode <= 4 {
            // either direction attaches the pair
            let res = if r.chance(1, 2) { node.link(&pids[i], &target).await } else { node.link(&target, &pids[i]).await };
            if res.is_ok() {
                linked[i] = true;
            }
        }
        if mode >= 2 {
            for _ in 0..(if r.chance(1, 6) { 2 } else { 1 }) {
                if let Ok(rf) = node.monitor(&pids[i], &target).await {
                    mons[i].push(rf);
                }
            }
        }
        if r.chance(1, 10) && linked[i] && node.unlink(&pids[i], &target).await.is_ok() {
            linked[i] = false;
        }
        if r.chance(1, 10) && !mons[i].is_empty() {
            let rf = mons[i].pop().unwrap();
            if node.demonitor(&pids[i], &target, &rf).await.is_err() {
                mons[i].push(rf);
            }
        }
    }
    w.stat("probe.c18.crowd_of_watchers");
    if linked.iter().filter(|l| **l).count() > 16 {
        w.stat("probe.c18.more_than_16_links");
    }
    if mons.iter().map(|m| m.len()).sum::<usize>() > 16 {
        w.stat("probe.c18.more_than_16_monitors");
    }
    if node.send(&target, from_val(&poison())).await.is_err() {
        w.violation("HARNESS-setup", "the process to fail did not take its last message".to_string());
        return;
    }
    // quiescence: everybody has been told, the process is gone
    for _ in 0..60_000 {
        if node.process_count().await <= n {
            break;
        }
        tokio::time::sleep(Duration::from_millis(1)).await;
    }
    tokio::time::sleep(Duration::from_millis(2_000)).await;
    w.set_yield_cfg(YieldCfg::default());
    let tv = pid_val(&target);
    let g = hist.lock().unwrap();
    for i in 1..=n {
        let exits = g.events.iter().filter(|e| e.proc_idx == i && matches!(&e.got, Got::Exit { from, .. } if *from == tv)).count();
        let want = usize::from(linked[i]);
        if exits < want {
            w.violation("missing-exit-notice", format!("crowd of {}: process {} was linked to the process that failed and is alive, but its handler saw no exit notice", n, i));
        } else if exits > want {
            w.violation("extra-exit-notice", format!("crowd of {}: process {} saw {} exit notices from the process that failed, {} expected", n, i, exits, want));
        }
        for rf in &mons[i] {
            let rv = ref_val(rf);
            let c = g.events.iter().filter(|e| e.proc_idx == i && matches!(&e.got, Got::MonitorExit { monitored, reference, .. } if *monitored == tv && *reference == rv)).count();
            if c == 0 {
                w.violation("missing-monitor-notice", format!("crowd of {}: process {} monitored the process that failed (reference still in force) and is alive, but got no notice for it", n, i));
            } else if c > 1 {
                w.violation("extra-monitor-notice", format!("crowd of {}: process {} got {} notices for one monitor reference", n, i, c));
            }
        }
        let all_mon = g.events.iter().filter(|e| e.proc_idx == i && matches!(&e.got, Got::MonitorExit { .. })).count();
        if all_mon > mons[i].len() {
            w.violation("extra-monitor-notice", format!("crowd of {}: process {} got {} monitor notices with {} references in force", n, i, all_mon, mons[i].len()));
        }
        if g.events.iter().any(|e| e.proc_idx == i && matches!(&e.got, Got::Failed | Got::Terminate)) {
            w.violation("bystander-terminated", format!("crowd of {}: process {} ended although only the watched process failed", n, i));
        }
    }
    drop(g);
    if node.send(&target, from_val(&Val::atom("late"))).await.is_ok() {
        w.violation("dead-pid-accepts", "a send to the process that failed was accepted after quiescence".to_string());
    }
    if node.process_count().await != n {
        w.violation("process-count", format!("process_count() is {} with {} live processes", node.process_count().await, n));
    }
}

async fn procs(w: &Arc<World>, p: &Plan) {
    let node = match start_node(w, 5).await {
        Ok(n) => Arc::new(n),
        Err(e) => {
            w.violation("HARNESS-setup", e);
            return;
        }
    };
    let hist: Hist = Arc::new(Mutex::new(History::default()));
    let mut pids: Vec<ExternalPid> = Vec::new();
    for i in 0..p.n_procs as usize {
        if p.same_number && i > 0 {
            // as if a full cycle of the number space had gone by since the previous spawn
            let a = node.verif_pid_allocator();
            a.next_id_test_only().store(pids[0].id, std::sync::atomic::Ordering::SeqCst);
            a.next_serial_test_only().fetch_add(1, std::sync::atomic::Ordering::SeqCst);
            w.stat("probe.c18.live_processes_with_the_same_number");
        }
        match node.spawn(Rec { idx: i, hist: hist.clone(), world: w.clone(), stall_16: p.proc_stall_16 }).await {
            Ok(pid) => pids.push(pid),
            Err(e) => {
                w.violation("HARNESS-setup", format!("spawn: {}", e));
                return;
            }
        }
    }
    {
        let mut d = pids.iter().map(pid_val).collect::<Vec<_>>();
        d.sort();
        d.dedup();
        if d.len() != pids.len() {
            w.violation("duplicate-pid", "spawn returned the same identifier twice".to_string());
        }
    }
    // two more slots for processes spawned while the history runs
    let late_slots = 2usize;
    let mut slots: Vec<Option<ExternalPid>> = pids.into_iter().map(Some).collect();
    slots.extend((0..late_slots).map(|_| None));
    let pids: Arc<Mutex<Vec<Option<ExternalPid>>>> = Arc::new(Mutex::new(slots));
    let next_late = Arc::new(Mutex::new(p.n_procs as usize));
    let names: Arc<Vec<Atom>> = Arc::new((0..p.n_names).map(|i| Atom::new(format!("name{}", i))).collect());
    let ops_log: Arc<Mutex<Vec<OpRec>>> = Arc::new(Mutex::new(Vec::new()));
    let refs: Arc<Mutex<HashMap<(usize, usize), Vec<ExternalReference>>>> = Arc::new(Mutex::new(HashMap::new()));
    w.set_yield_cfg(YieldCfg { intensity: p.yield_intensity, site_mask: p.yield_mask, max_sleep_ms: p.yield_sleep_ms });

    let n_tasks = p.tasks.len();
    let naps: Arc<Mutex<Vec<u64>>> = Arc::new(Mutex::new(Vec::new()));
    let np = p.n_procs as usize + late_slots;
    let mut handles = Vec::new();
    for (ti, ops) in p.tasks.iter().enumerate() {
        let (node, ops, hist, pids_shared, names, ops_log, refs, w) = (node.clone(), ops.clone(), hist.clone(), pids.clone(), names.clone(), ops_log.clone(), refs.clone(), w.clone());
        let next_late = next_late.clone();
        let naps = naps.clone();
        let stall_16 = p.proc_stall_16;
        let same_number = p.same_number;
        handles.push(tokio::spawn(async move {
            for (k, op) in ops.iter().enumerate() {
                if op.kind == "spawn" {
                    let slot = {
                        let mut g = next_late.lock().unwrap();
                        if *g >= np {
                            continue;
                        }
                        *g += 1;
                        *g - 1
                    };
                    let inv = next_seq(&hist);
                    let r = node.spawn(Rec { idx: slot, hist: hist.clone(), world: w.clone(), stall_16 }).await;
                    let ret = next_seq(&hist);
                    if let Ok(pid) = r {
                        w.ev(format!("task {} op {} spawn -> slot {} [{}..{}]", ti, k, slot, inv, ret));
                        w.stat("probe.c18.spawned_mid_history");
                        pids_shared.lock().unwrap()[slot] = Some(pid);
                    } else {
                        w.violation("spawn-failed", "spawn on a started node failed".to_string());
                    }
                    continue;
                }
                // operations name processes that exist at this moment
                let snapshot: Vec<Option<ExternalPid>> = pids_shared.lock().unwrap().clone();
                let existing: Vec<usize> = (0..np).filter(|i| snapshot[*i].is_some()).collect();
                let a = existing[op.a as usize % existing.len()];
                let mut b = existing[op.b as usize % existing.len()];
                let needs_b = matches!(op.kind.as_str(), "register" | "link" | "unlink" | "monitor" | "demonitor" | "monitor_stale" | "link_stale");
                let needs_a = !matches!(op.kind.as_str(), "register" | "unregister" | "whereis" | "send_name" | "pause" | "wait");
                if a == b && needs_b && needs_a {
                    b = existing[(op.b as usize + 1) % existing.len()];
                }
                if (needs_a && snapshot[a].is_none()) || (needs_b && snapshot[b].is_none()) {
                    continue;
                }
                let dummy = ExternalPid::new(Atom::new("none@none"), 0, 0, 0);
                let pids: Vec<ExternalPid> = snapshot.iter().map(|p| p.clone().unwrap_or_else(|| dummy.clone())).collect();
                let nm = op.a as usize % names.len();
                let mut rec = OpRec { task: ti, k, kind: op.kind.clone(), a, b, inv: 0, ret: 0, res: Res::Ok, body: None };
                if rec.kind == "spawn" {
                    continue;
                }
                // pair discipline: link/unlink on a pair and monitor/demonitor on (watcher,target) belong to one task
                let pair_owner = |x: usize, y: usize| (x.min(y) * 8 + x.max(y)) % n_tasks;
                match op.kind.as_str() {
                    "send" => {
                        let body = body_for(ti, k, 0, &format!("p{}", a));
                        rec.body = Some(body.clone());
                        rec.inv = next_seq(&hist);
                        let r = node.send(&pids[a], from_val(&body)).await;
                        rec.ret = next_seq(&hist);
                        rec.res = match r {
                            Ok(()) => Res::Ok,
                            Err(e) => Res::Err(e.to_string()),
                        };
                    }
                    "nap" => {
                        let body = body_for(ti, k, NAP_BASE + op.b as usize, &format!("p{}", a));
                        rec.body = Some(body.clone());
                        rec.inv = next_seq(&hist);
                        let _ = node.send(&pids[a], from_val(&body)).await;
                        rec.ret = next_seq(&hist);
                        naps.lock().unwrap().push(u64::from(op.b));
                    }
                    "wait" => {
                        tokio::time::sleep(Duration::from_millis(u64::from(op.a))).await;
                        continue;
                    }
                    "send_stale" => {
                        // an identifier with the numbers of a live process but another creation, serial or node
                        let body = body_for(ti, k, 0, &format!("x{}", a));
                        rec.body = Some(body.clone());
                        let target = stale_variant(&pids[a], op.b, same_number);
                        rec.inv = next_seq(&hist);
                        let r = node.send(&target, from_val(&body)).await;
                        rec.ret = next_seq(&hist);
                        rec.res = match r {
                            Ok(()) => Res::Ok,
                            Err(e) => Res::Err(e.to_string()),
                        };
                        w.stat("probe.c18.stale_identifier_used");
                    }
                    "monitor_stale" => {
                        // somebody else's identifier (same numbers as process a) watches b: a must never hear of it
                        let watcher = stale_variant(&pids[a], op.b, same_number);
                        rec.inv = next_seq(&hist);
                        let r = node.monitor(&watcher, &pids[b]).await;
                        rec.ret = next_seq(&hist);
                        rec.res = match r {
                            Ok(rf) => Res::Ref(ref_val(&rf)),
                            Err(e) => Res::Err(e.to_string()),
                        };
                        w.stat("probe.c18.stale_identifier_used");
                    }
                    "link_stale" => {
                        let (x, y) = if op.b & 4 == 0 { (stale_variant(&pids[a], op.b, same_number), pids[b].clone()) } else { (pids[a].clone(), stale_variant(&pids[b], if op.b & 1 == 0 { 4 } else { 1 }, same_number)) };
                        rec.inv = next_seq(&hist);
                        let r = node.link(&x, &y).await;
                        rec.ret = next_seq(&hist);
                        rec.res = match r {
                            Ok(()) => Res::Ok,
                            Err(e) => Res::Err(e.to_string()),
                        };
                        w.stat("probe.c18.stale_identifier_used");
                    }
                    "burst" => {
                        // above the mailbox capacity: the sender must be held back, nothing lost or reordered
                        rec.inv = next_seq(&hist);
                        let mut ok = 0;
                        for n in 0..1100 {
                            let body = body_for(ti, k, n + 1, &format!("p{}", a));
                            if node.send(&pids[a], from_val(&body)).await.is_ok() {
                                ok += 1;
                            } else {
                                break;
                            }
                        }
                        rec.ret = next_seq(&hist);
                        rec.b = ok;
                        w.stat("c18.burst");
                    }
                    "send_name" => {
                        let body = body_for(ti, k, 0, &format!("n{}", nm));
                        rec.a = nm;
                        rec.body = Some(body.clone());
                        rec.inv = next_seq(&hist);
                        let r = node.send_to_name(&names[nm], from_val(&body)).await;
                        rec.ret = next_seq(&hist);
                        rec.res = match r {
                            Ok(()) => Res::Ok,
                            Err(e) => Res::Err(e.to_string()),
                        };
                    }
                    "register" => {
                        rec.a = nm;
                        rec.inv = next_seq(&hist);
                        let r = node.register(names[nm].clone(), pids[b].clone()).await;
                        rec.ret = next_seq(&hist);
                        rec.res = match r {
                            Ok(()) => Res::Ok,
                            Err(e) => Res::Err(e.to_string()),
                        };
                    }
                    "unregister" => {
                        rec.a = nm;
                        rec.inv = next_seq(&hist);
                        let r = node.unregister(&names[nm]).await;
                        rec.ret = next_seq(&hist);
                        rec.res = match r {
                            Ok(()) => Res::Ok,
                            Err(e) => Res::Err(e.to_string()),
                        };
                    }
                    "whereis" => {
                        rec.a = nm;
                        rec.inv = next_seq(&hist);
                        let r = node.whereis(&names[nm]).await;
                        rec.ret = next_seq(&hist);
                        rec.res = Res::Pid(r.as_ref().map(pid_val));
                    }
                    "link" | "unlink" => {
                        if a == b {
                            b = (b + 1) % np;
                            rec.b = b;
                        }
                        if pair_owner(a, b) != ti {
                            continue;
                        }
                        rec.inv = next_seq(&hist);
                        let r = if op.kind == "link" { node.link(&pids[a], &pids[b]).await } else { node.unlink(&pids[a], &pids[b]).await };
                        rec.ret = next_seq(&hist);
                        rec.res = match r {
                            Ok(()) => Res::Ok,
                            Err(e) => Res::Err(e.to_string()),
                        };
                    }
                    "monitor_far" => {
                        // process 0 monitors process 1 twice; 2^k - 1 other references are made in between
                        let (a, b, k) = (0usize, 1usize, (op.b / 8).clamp(8, 20));
                        if snapshot[a].is_none() || snapshot[b].is_none() || (a * 8 + b) % n_tasks != ti {
                            continue;
                        }
                        for round in 0..2 {
                            let mut rec = OpRec { task: ti, k: k_index_base(k, round, ops.len()), kind: "monitor".into(), a, b, inv: next_seq(&hist), ret: 0, res: Res::Ok, body: None };
                            let r = node.monitor(&pids[a], &pids[b]).await;
                            rec.ret = next_seq(&hist);
                            rec.res = match r {
                                Ok(rf) => {
                                    let v = ref_val(&rf);
                                    refs.lock().unwrap().entry((a, b)).or_default().push(rf);
                                    Res::Ref(v)
                                }
                                Err(e) => Res::Err(e.to_string()),
                            };
                            ops_log.lock().unwrap().push(rec);
                            if round == 0 {
                                for _ in 0..(1u32 << k) - 1 {
                                    let _ = node.make_reference();
                                }
                                w.stat("probe.c18.monitors_2_pow_k_references_apart");
                            }
                        }
                        continue;
                    }
                    "monitor" => {
                        // a watches b
                        if a == b {
                            b = (b + 1) % np;
                            rec.b = b;
                        }
                        if (a * 8 + b) % n_tasks != ti {
                            continue;
                        }
                        rec.inv = next_seq(&hist);
                        let r = node.monitor(&pids[a], &pids[b]).await;
                        rec.ret = next_seq(&hist);
                        rec.res = match r {
                            Ok(rf) => {
                                let v = ref_val(&rf);
                                refs.lock().unwrap().entry((a, b)).or_default().push(rf);
                                Res::Ref(v)
                            }
                            Err(e) => Res::Err(e.to_string()),
                        };
                    }
                    "demonitor" => {
                        if a == b {
                            b = (b + 1) % np;
                            rec.b = b;
                        }
                        if (a * 8 + b) % n_tasks != ti {
                            continue;
                        }
                        let rf = refs.lock().unwrap().get_mut(&(a, b)).and_then(|v| v.pop());
                        let Some(rf) = rf else { continue };
                        rec.inv = next_seq(&hist);
                        let r = node.demonitor(&pids[a], &pids[b], &rf).await;
                        rec.ret = next_seq(&hist);
                        rec.res = match r {
                            Ok(()) => Res::Ref(ref_val(&rf)),
                            Err(e) => Res::Err(e.to_string()),
                        };
                    }
                    "kill" => {
                        rec.inv = next_seq(&hist);
                        let r = node.send(&pids[a], from_val(&poison())).await;
                        rec.ret = next_seq(&hist);
                        rec.res = match r {
                            Ok(()) => Res::Ok,
                            Err(e) => Res::Err(e.to_string()),
                        };
                        w.stat("fault.process_failure_requested");
                    }
                    _ => {
                        let d = w.draw(5);
                        tokio::time::sleep(Duration::from_millis(u64::from(d))).await;
                        continue;
                    }
                }
                w.ev(format!("task {} op {} {} a={} b={} [{}..{}] -> {:?}", ti, k, op.kind, rec.a, rec.b, rec.inv, rec.ret, rec.res));
                w.sig(0x0c18 ^ (ti as u64) << 12 ^ (k as u64) << 4);
                ops_log.lock().unwrap().push(rec);
            }
        }));
    }
    for h in handles {
        if h.await.is_err() {
            w.violation("panic", "a driver task panicked".to_string());
        }
    }
    // quiescence
    let nap_total: u64 = naps.lock().unwrap().iter().sum();
    tokio::time::sleep(Duration::from_millis(30_000 + nap_total * 1000)).await;
    w.set_yield_cfg(YieldCfg::default());

    // one final observation of every name goes into the history as well
    for (ni, name) in names.iter().enumerate() {
        let inv = next_seq(&hist);
        let r = node.whereis(name).await;
        let ret = next_seq(&hist);
        ops_log.lock().unwrap().push(OpRec { task: 99, k: ni, kind: "whereis".into(), a: ni, b: 0, inv, ret, res: Res::Pid(r.as_ref().map(pid_val)), body: None });
    }
    let ops = ops_log.lock().unwrap().clone();
    let events = hist.lock().unwrap().events.clone();
    // death intervals
    let mut failed_at: BTreeMap<usize, u64> = BTreeMap::new();
    let mut dropped_at: BTreeMap<usize, u64> = BTreeMap::new();
    for e in &events {
        match &e.got {
            Got::Failed => {
                failed_at.entry(e.proc_idx).or_insert(e.seq);
            }
            Got::Other(s) if s == "dropped" => {
                dropped_at.insert(e.proc_idx, e.seq);
            }
            _ => {}
        }
    }
    for (i, n) in &failed_at {
        if !dropped_at.contains_key(i) {
            w.violation("process-not-reaped", format!("process {} failed at event {} but its task never finished", i, n));
            return;
        }
    }
    let pids: Vec<ExternalPid> = {
        let dummy = ExternalPid::new(Atom::new("none@none"), 0, 0, 0);
        pids.lock().unwrap().iter().map(|p| p.clone().unwrap_or_else(|| dummy.clone())).collect()
    };
    let spawned = pids.iter().filter(|p| p.node.as_str() != "none@none").count();
    {
        let mut d: Vec<Val> = pids.iter().filter(|p| p.node.as_str() != "none@none").map(pid_val).collect();
        d.sort();
        d.dedup();
        if d.len() != spawned {
            w.violation("duplicate-pid", "spawn returned the same identifier twice".to_string());
        }
    }
    let pvals: Vec<Val> = pids.iter().map(pid_val).collect();
    // the death interval ends no earlier than the last notice the dying process caused (an
    // implementation may let go of the process object before it has told everybody)
    for e in &events {
        let from = match &e.got {
            Got::Exit { from, .. } => Some(from),
            Got::MonitorExit { monitored, .. } => Some(monitored),
            _ => None,
        };
        if let Some(i) = from.and_then(|f| pvals.iter().position(|v| v == f)) {
            if let Some(d) = dropped_at.get_mut(&i) {
                if e.seq > *d {
                    *d = e.seq;
                }
            }
        }
    }
    let mut p_all = p.clone();
    p_all.n_procs = np as u32;
    let p = &p_all;
    check_delivery(w, p, &ops, &events, &failed_at);
    check_notifications(w, p, &ops, &events, &failed_at, &dropped_at, &pvals);
    check_names(w, p, &ops, &failed_at, &dropped_at, &pvals);

    // post-quiescence state
    let live = spawned - failed_at.len();
    let count = node.process_count().await;
    if count != live {
        w.violation("process-count", format!("process_count() is {} with {} live processes", count, live));
    }
    for i in failed_at.keys() {
        match node.send(&pids[*i], from_val(&Val::atom("late"))).await {
            Err(edp_node::Error::ProcessNotFound(_)) => w.stat("probe.c18.dead_pid_rejected"),
            Ok(()) => w.violation("dead-pid-resolves", format!("send to terminated process {} returned Ok", i)),
            Err(e) => w.violation("dead-pid-resolves", format!("send to terminated process {} returned {}", i, e)),
        }
    }
    // a name that does not resolve can be registered again (whether a name may still resolve is
    // decided by the history check above, which includes the final observation)
    let live_idx = (0..np).find(|i| !failed_at.contains_key(i) && pids[*i].node.as_str() != "none@none");
    for (ni, name) in names.iter().enumerate() {
        if node.whereis(name).await.is_none() {
            if let Some(l) = live_idx {
                let had_dead_owner = ops.iter().any(|o| o.kind == "register" && o.a == ni && matches!(o.res, Res::Ok) && failed_at.get(&o.b).map(|n| o.ret < *n).unwrap_or(false));
                match node.register(name.clone(), pids[l].clone()).await {
                    Ok(()) => {
                        if had_dead_owner {
                            w.stat("probe.c18.name_of_dead_process_free");
                        }
                        let _ = node.unregister(name).await;
                    }
                    Err(e) => w.violation("name-not-reusable", format!("name{} does not resolve but cannot be registered: {}", ni, e)),
                }
            }
        }
    }
    let reg = node.registered().await;
    let mut reg_names: Vec<String> = reg.iter().map(|a| a.name.to_string()).collect();
    reg_names.sort();
    let mut d = reg_names.clone();
    d.dedup();
    if d.len() != reg_names.len() {
        w.violation("two-pids-one-name", format!("registered() lists a name twice: {:?}", reg_names));
    }
    let _ = to_val;
}

fn parse_body(v: &Val) -> Option<(usize, usize, usize, String)> {
    let t = v.as_tuple()?;
    if t.len() != 5 || t[0] != Val::atom("m") {
        return None;
    }
    let target = if let Val::Atom(s) = &t[4] { s.clone() } else { return None };
    Some((t[1].as_i64()? as usize, t[2].as_i64()? as usize, t[3].as_i64()? as usize, target))
}

fn check_delivery(w: &Arc<World>, p: &Plan, ops: &[OpRec], events: &[RecEvent], failed_at: &BTreeMap<usize, u64>) {
    // where did each unique body land?
    let mut landed: HashMap<(usize, usize, usize), Vec<(usize, u64)>> = HashMap::new();
    for e in events {
        if let Got::Regular(v) = &e.got {
            if let Some((t, k, n, target)) = parse_body(v) {
                landed.entry((t, k, n)).or_default().push((e.proc_idx, e.seq));
                if let Some(stripped) = target.strip_prefix('p') {
                    if stripped.parse::<usize>().ok() != Some(e.proc_idx) {
                        w.violation("misdelivered", format!("message {:?} addressed to {} was handled by process {}", (t, k, n), target, e.proc_idx));
                    }
                }
                if target.starts_with('x') {
                    w.violation("misdelivered", format!("message {:?}, addressed to an identifier that differs from every local process's in creation, serial or node name, was handled by process {}", (t, k, n), e.proc_idx));
                }
            } else if *v != Val::atom("late") {
                w.violation("foreign-message", format!("process {} handled a message nobody sent: {}", e.proc_idx, v.short()));
            }
        }
    }
    for (key, l) in &landed {
        if l.len() > 1 {
            w.violation("duplicate-delivery", format!("message {:?} was handled {} times", key, l.len()));
        }
    }
    // per (task, process): delivered order follows issue order; accepted sends form a delivered prefix
    for ti in 0..p.tasks.len() {
        for pi in 0..p.n_procs as usize {
            // issue order of everything task ti sent that could land on pi
            let mut delivered: Vec<(u64, (usize, usize))> = Vec::new();
            for ((t, k, n), l) in &landed {
                if *t == ti {
                    for (proc_idx, seq) in l {
                        if *proc_idx == pi {
                            delivered.push((*seq, (*k, *n)));
                        }
                    }
                }
            }
            delivered.sort();
            let keys: Vec<(usize, usize)> = delivered.iter().map(|d| d.1).collect();
            let mut sorted = keys.clone();
            sorted.sort();
            if keys != sorted {
                w.violation("reordered", format!("messages of task {} reached process {} in the order {:?}", ti, pi, keys));
            }
            // by-pid sends: accepted => delivered, unless the process failed; then a prefix
            let sent: Vec<&OpRec> = ops.iter().filter(|o| o.task == ti && o.kind == "send" && o.a == pi).collect();
            let mut missing_seen = false;
            for o in &sent {
                let got = landed.contains_key(&(o.task, o.k, 0));
                match (&o.res, got) {
                    (Res::Ok, true) => {
                        w.stat("probe.c18.delivered");
                        if missing_seen {
                            w.violation("gap-in-delivery", format!("task {} -> process {}: a later accepted message was handled although an earlier accepted one was not", ti, pi));
                        }
                    }
                    (Res::Ok, false) => {
                        missing_seen = true;
                        if !failed_at.contains_key(&pi) {
                            w.violation("lost-message", format!("send #{} of task {} to live process {} returned Ok but the handler never saw it", o.k, ti, pi));
                        }
                    }
                    (Res::Err(e), true) => w.violation("delivered-despite-error", format!("send #{} of task {} returned {} but was handled", o.k, ti, e)),
                    (Res::Err(e), false) => {
                        // the identifier of a process that never terminates resolves for its whole life
                        if !failed_at.contains_key(&pi) {
                            w.violation("live-pid-rejected", format!("send #{} of task {} to process {}, which never terminated, was refused: {}", o.k, ti, pi, e));
                        }
                    }
                    _ => {}
                }
            }
            for o in ops.iter().filter(|o| o.task == ti && o.kind == "burst" && o.a == pi) {
                let got: Vec<usize> = (1..=1100).filter(|n| landed.contains_key(&(o.task, o.k, *n))).collect();
                let want: Vec<usize> = (1..=o.b).collect();
                if !failed_at.contains_key(&pi) {
                    if got != want {
                        w.violation("lost-message", format!("burst of task {} to live process {}: {} accepted, {} handled", ti, pi, o.b, got.len()));
                    } else if o.b == 1100 {
                        w.stat("probe.c18.backpressure_burst");
                    }
                } else if got != (1..=got.len()).collect::<Vec<_>>() {
                    w.violation("gap-in-delivery", format!("burst of task {} to process {} has a hole", ti, pi));
                }
            }
        }
    }
    // by-name sends: landed at most once, on a process that could hold the name during the call
    for o in ops.iter().filter(|o| o.kind == "send_name") {
        let l = landed.get(&(o.task, o.k, 0));
        match (&o.res, l) {
            (Res::Err(e), Some(_)) => w.violation("delivered-despite-error", format!("send_to_name #{} of task {} returned {} but was handled", o.k, o.task, e)),
            (_, Some(l)) => {
                let (pi, _) = l[0];
                // some successful register(name -> pi) must have been invoked before this call returned
                let possible = ops.iter().any(|r| r.kind == "register" && r.a == o.a && r.b == pi && matches!(r.res, Res::Ok) && r.inv < o.ret);
                if !possible {
                    w.violation("misdelivered", format!("send_to_name(name{}) of task {} landed on process {} which never held that name before the call returned", o.a, o.task, pi));
                } else {
                    w.stat("probe.c18.send_name_delivered");
                }
            }
            (Res::Ok, None) => {
                // accepted but never handled: only if every possible holder failed
                let holders: Vec<usize> = ops.iter().filter(|r| r.kind == "register" && r.a == o.a && matches!(r.res, Res::Ok) && r.inv < o.ret).map(|r| r.b).collect();
                if !holders.is_empty() && holders.iter().all(|h| !failed_at.contains_key(h)) {
                    w.violation("lost-message", format!("send_to_name(name{}) #{} of task {} returned Ok, all possible holders are alive, but no handler saw it", o.a, o.k, o.task));
                }
            }
            _ => {}
        }
    }
}

/// State of a totally ordered (single-task) sequence of on/off operations at the death interval [n, d].
/// Returns (definitely_on, ambiguous).
fn pair_state(seq: &[(&OpRec, bool)], n: u64, d: u64) -> (bool, bool) {
    let mut on = false;
    let mut ambiguous = false;
    for (o, turns_on) in seq {
        if o.ret < n {
            on = *turns_on;
        } else if o.inv < d {
            ambiguous = true;
        }
    }
    (on, ambiguous)
}

#[allow(clippy::too_many_arguments)]
fn check_notifications(w: &Arc<World>, p: &Plan, ops: &[OpRec], events: &[RecEvent], failed_at: &BTreeMap<usize, u64>, dropped_at: &BTreeMap<usize, u64>, pvals: &[Val]) {
    let np = p.n_procs as usize;
    for (dead, n) in failed_at {
        let d = dropped_at[dead];
        for q in 0..np {
            if q == *dead {
                continue;
            }
            let q_live = !failed_at.contains_key(&q);
            // links between dead and q
            let mut seq: Vec<(&OpRec, bool)> = ops
                .iter()
                .filter(|o| (o.kind == "link" || o.kind == "unlink") && ((o.a == *dead && o.b == q) || (o.a == q && o.b == *dead)) && matches!(o.res, Res::Ok))
                .map(|o| (o, o.kind == "link"))
                .collect();
            seq.sort_by_key(|x| x.0.inv);
            let (on, amb) = pair_state(&seq, *n, d);
            let exits = events.iter().filter(|e| e.proc_idx == q && matches!(&e.got, Got::Exit { from, .. } if *from == pvals[*dead])).count();
            if exits > 1 {
                w.violation("duplicate-exit-notice", format!("process {} was told {} times that linked process {} terminated", q, exits, dead));
            }
            if q_live && !amb {
                if on && exits == 0 {
                    w.violation("missing-exit-notice", format!("process {} was linked to {} when it failed (event {}) and is alive, but its handler saw no exit notice", q, dead, n));
                }
                if !on && exits > 0 {
                    let unlinked = seq.iter().any(|(o, t)| !*t && o.ret < *n);
                    w.violation(if unlinked { "exit-notice-after-unlink" } else { "spurious-exit-notice" }, format!("process {} got an exit notice from {} although no link was in force when it failed", q, dead));
                }
                if on && exits == 1 {
                    w.stat("probe.c18.exit_notified");
                    let failed_ms = events.iter().find(|e| e.proc_idx == *dead && matches!(e.got, Got::Failed)).map(|e| e.t_ms).unwrap_or(0);
                    if events.iter().any(|e| e.proc_idx == q && matches!(&e.got, Got::Exit { from, .. } if *from == pvals[*dead]) && e.t_ms >= failed_ms + 5_000) {
                        w.stat("probe.c18.notice_after_long_full_mailbox");
                    }
                }
                if !on && exits == 0 && seq.iter().any(|(o, t)| !*t && o.ret < *n) {
                    w.stat("probe.c18.no_notice_after_unlink");
                }
            }
            // monitors: q watches dead
            let mons: Vec<&OpRec> = ops.iter().filter(|o| o.kind == "monitor" && o.a == q && o.b == *dead).collect();
            for m in &mons {
                let Res::Ref(r) = &m.res else { continue };
                let dem = ops.iter().find(|o| o.kind == "demonitor" && o.a == q && o.b == *dead && matches!(&o.res, Res::Ref(x) if x == r));
                let mut s: Vec<(&OpRec, bool)> = vec![(*m, true)];
                if let Some(dm) = dem {
                    s.push((dm, false));
                }
                let (on, amb) = pair_state(&s, *n, d);
                let notices = events.iter().filter(|e| e.proc_idx == q && matches!(&e.got, Got::MonitorExit { monitored, reference, .. } if *monitored == pvals[*dead] && reference == r)).count();
                if notices > 1 {
                    w.violation("duplicate-monitor-notice", format!("process {} got {} notices for one monitor of {}", q, notices, dead));
                }
                if q_live && !amb {
                    if on && notices == 0 {
                        w.violation("missing-monitor-notice", format!("process {} monitored {} (reference issued before it failed at event {}) and is alive, but got no notice", q, dead, n));
                    }
                    if !on && notices > 0 {
                        w.violation("monitor-notice-after-demonitor", format!("process {} got a monitor notice for {} although the monitor was not in force", q, dead));
                    }
                    if on && notices == 1 {
                        w.stat("probe.c18.monitor_notified");
                        let failed_ms = events.iter().find(|e| e.proc_idx == *dead && matches!(e.got, Got::Failed)).map(|e| e.t_ms).unwrap_or(0);
                        if events.iter().any(|e| e.proc_idx == q && matches!(&e.got, Got::MonitorExit { monitored, .. } if *monitored == pvals[*dead]) && e.t_ms >= failed_ms + 5_000) {
                            w.stat("probe.c18.notice_after_long_full_mailbox");
                        }
                    }
                }
            }
        }
    }
    // every monitor has a reference of its own
    {
        let mut seen: Vec<&Val> = Vec::new();
        for o in ops.iter().filter(|o| o.kind == "monitor") {
            if let Res::Ref(r) = &o.res {
                if seen.contains(&r) {
                    w.violation("monitor-reference-reused", format!("monitor of process {} by process {} returned reference {:?}, which an earlier monitor still carries", o.b, o.a, r));
                    break;
                }
                seen.push(r);
            }
        }
    }
    // every notice must be attributable
    for e in events {
        match &e.got {
            Got::Exit { from, .. } => {
                let src = pvals.iter().position(|v| v == from);
                match src {
                    Some(s) if failed_at.contains_key(&s) => {
                        let linked_ever = ops.iter().any(|o| o.kind == "link" && ((o.a == s && o.b == e.proc_idx) || (o.b == s && o.a == e.proc_idx)));
                        if !linked_ever {
                            w.violation("spurious-exit-notice", format!("process {} got an exit notice from {} but was never linked to it", e.proc_idx, s));
                        }
                    }
                    _ => w.violation("spurious-exit-notice", format!("process {} got an exit notice from {:?} which did not terminate", e.proc_idx, from)),
                }
            }
            Got::MonitorExit { monitored, reference, .. } => {
                let src = pvals.iter().position(|v| v == monitored);
                let known = ops.iter().any(|o| o.kind == "monitor" && o.a == e.proc_idx && Some(o.b) == src && matches!(&o.res, Res::Ref(r) if r == reference));
                if !known || !src.map(|s| failed_at.contains_key(&s)).unwrap_or(false) {
                    w.violation("spurious-monitor-notice", format!("process {} got a monitor notice (monitored {:?}) that matches no monitor it holds on a terminated process", e.proc_idx, monitored));
                }
            }
            _ => {}
        }
    }
}

// ---------------------------------------------------------------------------
// Name table: linearizability against a sequential map, per name
// ---------------------------------------------------------------------------

#[derive(Clone, Debug)]
enum LinKind {
    Register(usize, bool),
    Unregister(bool),
    Whereis(Option<usize>),
    /// death of process i removes the name if it maps to i
    Death(usize),
}

#[derive(Clone, Debug)]
struct LinOp {
    inv: u64,
    ret: u64,
    kind: LinKind,
}

fn linearizable(ops: &[LinOp]) -> bool {
    // state: None or Some(proc index); search over remaining-set bitmask
    fn go(ops: &[LinOp], remaining: u64, state: Option<usize>, memo: &mut HashMap<(u64, Option<usize>), bool>) -> bool {
        if remaining == 0 {
            return true;
        }
        if let Some(r) = memo.get(&(remaining, state)) {
            return *r;
        }
        // an operation can be linearized next iff no other remaining operation returned before it was invoked
        let min_ret = (0..ops.len()).filter(|i| remaining & (1 << i) != 0).map(|i| ops[i].ret).min().unwrap();
        let mut ok = false;
        for i in 0..ops.len() {
            if remaining & (1 << i) == 0 || ops[i].inv > min_ret {
                continue;
            }
            let next = match &ops[i].kind {
                LinKind::Register(pi, succeeded) => match (state, succeeded) {
                    (None, true) => Some(Some(*pi)),
                    (Some(_), false) => Some(state),
                    _ => None,
                },
                LinKind::Unregister(succeeded) => match (state, succeeded) {
                    (Some(_), true) => Some(None),
                    (None, false) => Some(None),
                    _ => None,
                },
                LinKind::Whereis(seen) => {
                    if *seen == state {
                        Some(state)
                    } else {
                        None
                    }
                }
                LinKind::Death(pi) => Some(if state == Some(*pi) { None } else { state }),
            };
            if let Some(ns) = next {
                if go(ops, remaining & !(1 << i), ns, memo) {
                    ok = true;
                    break;
                }
            }
        }
        memo.insert((remaining, state), ok);
        ok
    }
    if ops.len() > 60 {
        return true;
    }
    let mut memo = HashMap::new();
    go(ops, (1u64 << ops.len()) - 1, None, &mut memo)
}

fn check_names(w: &Arc<World>, p: &Plan, ops: &[OpRec], failed_at: &BTreeMap<usize, u64>, dropped_at: &BTreeMap<usize, u64>, pvals: &[Val]) {
    for ni in 0..p.n_names as usize {
        let mut lin: Vec<LinOp> = Vec::new();
        for o in ops.iter().filter(|o| o.a == ni) {
            let kind = match (o.kind.as_str(), &o.res) {
                ("register", Res::Ok) => LinKind::Register(o.b, true),
                ("register", Res::Err(_)) => LinKind::Register(o.b, false),
                ("unregister", Res::Ok) => LinKind::Unregister(true),
                ("unregister", Res::Err(_)) => LinKind::Unregister(false),
                ("whereis", Res::Pid(v)) => {
                    let idx = match v {
                        None => None,
                        Some(v) => match pvals.iter().position(|x| x == v) {
                            Some(i) => Some(i),
                            None => {
                                w.violation("name-table", format!("whereis(name{}) returned an identifier that was never registered: {:?}", ni, v));
                                continue;
                            }
                        },
                    };
                    LinKind::Whereis(idx)
                }
                _ => continue,
            };
            lin.push(LinOp { inv: o.inv, ret: o.ret, kind });
        }
        if lin.is_empty() {
            continue;
        }
        let without_deaths = lin.clone();
        for (dead, n) in failed_at {
            lin.push(LinOp { inv: *n, ret: dropped_at[dead], kind: LinKind::Death(*dead) });
        }
        if linearizable(&lin) {
            w.stat("probe.c18.name_history_linearizable");
        } else if linearizable(&without_deaths) {
            w.violation("stale-name", format!("the history of name{} (incl. the final whereis) is only explicable if a terminated process kept its registered name after it was gone", ni));
        } else {
            w.violation("name-table", format!("the register/unregister/whereis history of name{} ({} operations) has no sequential explanation", ni, lin.len()));
        }
    }
}
