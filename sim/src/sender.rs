//! Model of a conforming sending node: every control message kind, the
//! sender-side atom cache of an OTP node (8 segments x 256 slots; header position
//! independent of the slot), fragmentation, ticks and junk frames.

use crate::core::Rng;
use crate::nodeenv::{PEER_NAME, SUT_NAME};
use crate::wire::{self, HdrRef, Val};
use std::collections::HashMap;

/// (tag, number of fields after the tag, has payload, which field is a 64-bit id (0 = none))
const KINDS: &[(i128, usize, bool)] = &[
    (1, 2, false),
    (2, 2, true),
    (3, 3, false),
    (4, 2, false),
    (5, 0, false),
    (6, 3, true),
    (7, 2, false),
    (8, 3, false),
    (12, 3, true),
    (13, 4, false),
    (16, 4, true),
    (18, 4, false),
    (19, 3, false),
    (20, 3, false),
    (21, 4, false),
    (22, 2, true),
    (23, 3, true),
    (24, 2, true),
    (25, 3, true),
    (26, 2, true),
    (27, 3, true),
    (28, 3, true),
    (31, 4, false),
    (33, 2, true),
    (35, 3, false),
    (36, 3, false),
    (38, 3, true),
    (99, 2, true),
];

pub fn n_kinds() -> usize {
    KINDS.len()
}

fn pid(r: &mut Rng, local: bool) -> Val {
    wire::gen_pid(r, Some(if local { SUT_NAME } else { PEER_NAME }))
}

/// A control tuple of the given kind with seeded field values, and whether a payload follows.
pub fn gen_control(r: &mut Rng, kind: usize, small_unlink_ids: bool) -> (Val, bool) {
    let (tag, _n, has_payload) = KINDS[kind % KINDS.len()];
    let reason = |r: &mut Rng| wire::gen_val(r, 4);
    let tt = |r: &mut Rng| Val::tuple(vec![Val::int(1), Val::int(2), Val::int(r.below(100) as i128), pid(r, false), Val::int(0)]);
    let fields: Vec<Val> = match tag {
        1 | 4 | 7 | 22 | 24 | 26 => vec![pid(r, false), pid(r, true)],
        2 => vec![Val::atom(""), pid(r, true)],
        3 | 8 => vec![pid(r, false), pid(r, true), reason(r)],
        5 => vec![],
        6 => vec![pid(r, false), Val::atom(""), Val::Atom(wire::gen_atom(r))],
        12 => vec![Val::atom(""), pid(r, true), tt(r)],
        13 | 18 => vec![pid(r, false), pid(r, true), tt(r), reason(r)],
        16 => vec![pid(r, false), Val::atom(""), Val::Atom(wire::gen_atom(r)), tt(r)],
        19 | 20 => vec![pid(r, false), pid(r, true), wire::gen_ref(r, Some(PEER_NAME))],
        21 => vec![pid(r, false), pid(r, true), wire::gen_ref(r, Some(SUT_NAME)), reason(r)],
        23 | 25 | 27 => vec![pid(r, false), pid(r, true), tt(r)],
        28 => vec![pid(r, false), pid(r, true), wire::gen_ref(r, Some(SUT_NAME))],
        31 => vec![wire::gen_ref(r, Some(SUT_NAME)), pid(r, true), Val::int(r.below(4) as i128), if r.chance(1, 2) { pid(r, false) } else { Val::atom("badarg") }],
        33 => vec![pid(r, false), wire::gen_ref(r, Some(SUT_NAME))],
        35 | 36 => {
            let id: u64 = match r.below(5) {
                0 => 0,
                1 => (1 << 63) - 1,
                2 if !small_unlink_ids => u64::MAX,
                3 if !small_unlink_ids => 1 << 63,
                _ => r.next_u64() >> 1,
            };
            vec![Val::int(i128::from(id)), pid(r, false), pid(r, true)]
        }
        38 => vec![pid(r, false), wire::gen_ref(r, Some(SUT_NAME)), tt(r)],
        _ => vec![Val::atom("mystery"), pid(r, true)],
    };
    let mut t = vec![Val::int(tag)];
    t.extend(fields);
    (Val::Tuple(t), has_payload)
}

/// The sender's view of the receiver's atom cache.
#[derive(Default, Clone)]
pub struct SenderCache {
    pub slots: HashMap<(u8, u8), String>,
    /// use all 8 segments (otherwise 6 and 7 stay reserved for isolated / junk headers)
    pub all_segments: bool,
    /// every atom goes through the header and the cache (none stays inline in the terms)
    pub cache_everything: bool,
}

impl SenderCache {
    fn find(&self, atom: &str) -> Option<(u8, u8)> {
        let mut v: Vec<(u8, u8)> = self.slots.iter().filter(|(_, a)| a.as_str() == atom).map(|(k, _)| *k).collect();
        v.sort();
        v.first().copied()
    }

    /// Chooses, for the atoms of one message, which go through the header, at which position,
    /// in which slot, and whether as a new entry or a reference to an existing one. Updates the model.
    pub fn choose_refs(&mut self, r: &mut Rng, atoms: &[String], stats: &mut Vec<&'static str>) -> Vec<HdrRef> {
        let mut order: Vec<&String> = atoms.iter().filter(|a| self.cache_everything || a.len() <= 255 || r.chance(1, 2)).collect();
        // positions are independent of slots: shuffle
        for i in (1..order.len()).rev() {
            let j = r.below(i as u64 + 1) as usize;
            order.swap(i, j);
        }
        order.truncate(255);
        let mut refs: Vec<HdrRef> = Vec::new();
        let mut used_slots: Vec<(u8, u8)> = Vec::new();
        for a in order {
            if !self.cache_everything && r.chance(1, 6) {
                continue; // stays inline in the terms
            }
            let cached = self.find(a).filter(|s| !used_slots.contains(s));
            match cached {
                Some((seg, idx)) if r.chance(4, 5) => {
                    refs.push(HdrRef { new: false, seg, idx, atom: a.clone() });
                    used_slots.push((seg, idx));
                    stats.push("probe.c14.old_entry_referenced");
                }
                _ => {
                    // a slot as an OTP node would pick it (by hash) or any other: both conform
                    let nseg = if self.all_segments { 8 } else { 6 };
                    let mut slot = ((r.below(nseg)) as u8, r.below(256) as u8);
                    if r.chance(1, 6) {
                        // the corners of the table: first and last segment in use, first and last indices
                        slot = (*r.pick(&[0u8, (nseg - 1) as u8]), *r.pick(&[0u8, 1, 247, 254, 255]));
                        stats.push("probe.c14.corner_slot");
                    }
                    if r.chance(1, 3) && !self.slots.is_empty() {
                        // deliberately overwrite a live entry
                        let mut keys: Vec<(u8, u8)> = self.slots.keys().copied().collect();
                        keys.sort();
                        slot = keys[r.below(keys.len() as u64) as usize];
                    }
                    let mut guard = 0;
                    while used_slots.contains(&slot) && guard < 2000 {
                        slot = ((r.below(nseg)) as u8, r.below(256) as u8);
                        guard += 1;
                    }
                    if used_slots.contains(&slot) {
                        continue;
                    }
                    if self.slots.contains_key(&slot) {
                        stats.push("probe.c14.slot_overwritten");
                    }
                    if slot.0 != 0 {
                        stats.push("probe.c14.segment_above_zero");
                    }
                    if slot.0 == 7 {
                        stats.push("probe.c14.segment_seven");
                    }
                    self.slots.insert(slot, a.clone());
                    used_slots.push(slot);
                    refs.push(HdrRef { new: true, seg: slot.0, idx: slot.1, atom: a.clone() });
                }
            }
        }
        if refs.iter().enumerate().any(|(i, x)| usize::from(x.idx) != i) {
            stats.push("probe.c14.position_differs_from_slot");
        }
        if refs.iter().any(|x| x.new && x.atom.len() > 255) {
            stats.push(if refs.len() % 2 == 0 { "probe.c14.long_atoms_even_count" } else { "probe.c14.long_atoms_odd_count" });
        }
        refs
    }
}

/// Header references for a message whose header must not influence later messages (used for
/// fragmented messages): every atom is a new entry in reserved segment 6.
pub fn isolated_refs(atoms: &[String]) -> Vec<HdrRef> {
    atoms.iter().take(200).enumerate().map(|(i, a)| HdrRef { new: true, seg: 6, idx: i as u8, atom: a.clone() }).filter(|x| x.atom.len() <= 255).collect()
}

/// Frames that no conforming peer sends and that must each yield exactly one error.
pub fn junk_body(r: &mut Rng, kind: &str) -> Vec<u8> {
    match kind {
        "random" => {
            let n = r.range(1, 60) as usize;
            let mut b = r.bytes(n);
            if b[0] == 112 || b[0] == 131 {
                b[0] = 7;
            }
            b
        }
        "pt_wide_kind" => {
            // well-formed, and of no kind there is: the number equals SEND only when cut to 8, 16 or 32 bits or
            // stripped of its sign
            let off = *r.pick(&[256i128, 65_536, 1 << 32, -65_536, -256, -4]);
            let control = Val::tuple(vec![Val::int(2 + off), Val::atom(""), wire::gen_pid(r, Some(SUT_NAME))]);
            wire::pass_through(&control, Some(&Val::atom("stray")))
        }
        "pt_garbage" => {
            let n = r.range(1, 30) as usize;
            let mut b = vec![112u8, 131];
            b.extend(r.bytes(n).into_iter().map(|x| x % 60 + 1));
            b
        }
        "pt_truncated" => {
            let control = Val::tuple(vec![Val::int(2), Val::atom(""), wire::gen_pid(r, Some(SUT_NAME))]);
            let payload = Val::tuple(vec![wire::gen_val(r, 8), Val::atom("tail")]);
            let boundary = wire::pass_through(&control, None).len();
            let good = wire::pass_through(&control, Some(&payload));
            let mut cut = r.range(2, good.len() as u64 - 1) as usize;
            if cut == boundary {
                // a frame that ends exactly after the control term is a valid payload-less message
                cut += 1;
            }
            good[..cut].to_vec()
        }
        "wrong_marker" => {
            let mut good = wire::pass_through(&Val::tuple(vec![Val::int(1), wire::gen_pid(r, None), wire::gen_pid(r, None)]), None);
            good[0] = *r.pick(&[0u8, 111, 113, 200]);
            good
        }
        "hdr_truncated" => {
            // 131 68, three new entries in reserved segment 7, cut inside the second atom
            let refs: Vec<HdrRef> = (0..3).map(|i| HdrRef { new: true, seg: 7, idx: 250 + i as u8, atom: format!("junkatom{}", i) }).collect();
            let mut b = vec![131u8, 68];
            let body = wire::write_header_body(&refs);
            b.extend_from_slice(&body[..body.len() - 12]);
            b
        }
        "frag_hdr_short" => {
            // fragment header announcing more atom-cache references than there are bytes
            let mut b = vec![131u8, 69];
            b.extend_from_slice(&(0xdead_0000_0000_0000u64 + r.below(1000)).to_be_bytes());
            b.extend_from_slice(&1u64.to_be_bytes());
            b.push(200);
            b.extend_from_slice(&[1, 2, 3]);
            b
        }
        "tiny" => {
            // one- and two-byte frames that look like the start of every wire form
            let all: &[&[u8]] = &[&[131], &[131, 68], &[131, 69], &[131, 70], &[112], &[112, 131], &[131, 68, 1], &[131, 68, 200], &[131, 69, 0], &[131, 70, 0, 0], &[112, 131, 104], &[68], &[131, 131]];
            all[r.below(all.len() as u64) as usize].to_vec()
        }
        "huge_count" => {
            let mut b = vec![112u8, 131];
            match r.below(3) {
                0 => {
                    b.push(108);
                    b.extend_from_slice(&u32::MAX.to_be_bytes());
                }
                1 => {
                    b.push(104);
                    b.push(255);
                }
                _ => {
                    b.push(116);
                    b.extend_from_slice(&0x7fff_ffffu32.to_be_bytes());
                }
            }
            b
        }
        _ => {
            // deep nesting (<= 1000): a valid term that is not a control tuple
            let depth = r.range(100, 1000) as usize;
            let mut b = vec![112u8, 131];
            for _ in 0..depth {
                b.push(104);
                b.push(1);
            }
            b.push(106);
            b
        }
    }
}

pub const JUNK_A: &[&str] = &["random", "pt_wide_kind", "pt_garbage", "pt_truncated", "wrong_marker", "huge_count", "deep", "tiny"];
pub const JUNK_B: &[&str] = &["random", "pt_wide_kind", "pt_garbage", "pt_truncated", "wrong_marker", "huge_count", "deep", "hdr_truncated", "frag_hdr_short", "hdr_ok_term_bad", "hdr_ok_term_bad", "hdr_zero_refs_cache_ref", "hdr_zero_refs_cache_ref", "tiny", "tiny"];
