//! A tracing subscriber that enables every callsite at every level and formats the beginning of
//! every field into a bounded sink: with it installed, the arguments of trace!/debug! lines in
//! the code under test are evaluated and their Debug/Display implementations start to run, as they
//! would in a deployment that turns logging up. Installed once, process-wide, for every run:
//! tracing caches callsite interest globally, so a per-run or per-thread setting would make a run's
//! behaviour depend on what other runs in the same process had enabled.

use std::fmt::Write;
use std::sync::atomic::{AtomicU64, Ordering};
use tracing::field::{Field, Visit};
use tracing::span::{Attributes, Id, Record};
use tracing::{Event, Metadata, Subscriber};

pub struct FormatEverything {
    next: AtomicU64,
}

impl FormatEverything {
    pub fn new() -> Self {
        FormatEverything { next: AtomicU64::new(1) }
    }
}

struct Sink(String);

/// Accepts at most 256 bytes, then aborts the formatting (hex dumps of whole frames are not worth the time).
struct Bounded<'a>(&'a mut String);

impl std::fmt::Write for Bounded<'_> {
    fn write_str(&mut self, s: &str) -> std::fmt::Result {
        if self.0.len() + s.len() > 256 {
            return Err(std::fmt::Error);
        }
        self.0.push_str(s);
        Ok(())
    }
}

impl Visit for Sink {
    fn record_debug(&mut self, field: &Field, value: &dyn std::fmt::Debug) {
        self.0.clear();
        let _ = write!(Bounded(&mut self.0), "{}={:?}", field.name(), value);
    }
}

impl Subscriber for FormatEverything {
    fn enabled(&self, _m: &Metadata<'_>) -> bool {
        true
    }
    fn new_span(&self, attrs: &Attributes<'_>) -> Id {
        let mut s = Sink(String::new());
        attrs.record(&mut s);
        Id::from_u64(self.next.fetch_add(1, Ordering::Relaxed))
    }
    fn record(&self, _span: &Id, values: &Record<'_>) {
        let mut s = Sink(String::new());
        values.record(&mut s);
    }
    fn record_follows_from(&self, _span: &Id, _follows: &Id) {}
    fn event(&self, event: &Event<'_>) {
        let mut s = Sink(String::new());
        event.record(&mut s);
    }
    fn enter(&self, _span: &Id) {}
    fn exit(&self, _span: &Id) {}
}

/// The same for the `log` facade (used by erltf): every record is enabled and its message is
/// formatted into a bounded sink.
pub struct LogEverything;

impl log::Log for LogEverything {
    fn enabled(&self, _m: &log::Metadata<'_>) -> bool {
        true
    }
    fn log(&self, record: &log::Record<'_>) {
        let mut s = String::new();
        let _ = write!(Bounded(&mut s), "{}", record.args());
    }
    fn flush(&self) {}
}

pub static LOGGER: LogEverything = LogEverything;
