//! Independent implementation of the wire formats, written from the Erlang
//! distribution protocol and external term format documents. Shares no code
//! with `erltf` / `edp_client`.

use crate::core::Rng;
use md5::{Digest, Md5};
use serde::{Deserialize, Serialize};
use std::collections::HashMap;

#[derive(Clone, Debug, PartialEq, Eq, PartialOrd, Ord, Hash, Serialize, Deserialize)]
pub enum Val {
    /// sign + little-endian magnitude without trailing zero bytes; zero is (false, [])
    Int(bool, Vec<u8>),
    Float(u64),
    Atom(String),
    Bin(Vec<u8>),
    BitBin(Vec<u8>, u8),
    Tuple(Vec<Val>),
    Nil,
    /// non-empty elements + tail (Nil for a proper list)
    List(Vec<Val>, Box<Val>),
    /// sorted by key, keys distinct
    Map(Vec<(Val, Val)>),
    Pid { node: String, id: u32, serial: u32, creation: u32 },
    Port { node: String, id: u64, creation: u32 },
    Ref { node: String, creation: u32, ids: Vec<u32> },
    /// node-local form (LOCAL_EXT): opaque 8-byte hash + the identifier it wraps
    Local(Vec<u8>, Box<Val>),
    /// fun M:F/A (EXPORT_EXT)
    Export(String, String, u8),
}

impl Val {
    pub fn int(v: i128) -> Val {
        let neg = v < 0;
        let mut m = v.unsigned_abs();
        let mut mag = Vec::new();
        while m > 0 {
            mag.push((m & 0xff) as u8);
            m >>= 8;
        }
        Val::Int(neg && !mag.is_empty(), mag)
    }
    pub fn atom(s: &str) -> Val {
        Val::Atom(s.to_string())
    }
    pub fn tuple(v: Vec<Val>) -> Val {
        Val::Tuple(v)
    }
    pub fn list(v: Vec<Val>) -> Val {
        if v.is_empty() { Val::Nil } else { Val::List(v, Box::new(Val::Nil)) }
    }
    pub fn map(mut kv: Vec<(Val, Val)>) -> Val {
        kv.sort();
        kv.dedup_by(|a, b| a.0 == b.0);
        Val::Map(kv)
    }
    pub fn as_i64(&self) -> Option<i64> {
        if let Val::Int(neg, mag) = self {
            if mag.len() > 8 {
                return None;
            }
            let mut m: u128 = 0;
            for (i, b) in mag.iter().enumerate() {
                m |= u128::from(*b) << (8 * i);
            }
            let v: i128 = if *neg { -(m as i128) } else { m as i128 };
            i64::try_from(v).ok()
        } else {
            None
        }
    }
    pub fn as_tuple(&self) -> Option<&[Val]> {
        if let Val::Tuple(v) = self { Some(v) } else { None }
    }
    /// All atoms occurring in the value (incl. node names), in first-occurrence order.
    pub fn atoms(&self, out: &mut Vec<String>) {
        let mut push = |s: &String| {
            if !out.contains(s) {
                out.push(s.clone());
            }
        };
        match self {
            Val::Atom(s) => push(s),
            Val::Pid { node, .. } | Val::Port { node, .. } | Val::Ref { node, .. } => push(node),
            Val::Export(m, f, _) => {
                push(m);
                push(f);
            }
            Val::Local(_, inner) => {
                // the wrapped identifier's node name is part of the opaque bytes on the wire, but
                // writers may still list it in a distribution header
                inner.atoms(out)
            }
            Val::Tuple(v) => v.iter().for_each(|x| x.atoms(out)),
            Val::List(v, t) => {
                v.iter().for_each(|x| x.atoms(out));
                t.atoms(out);
            }
            Val::Map(kv) => kv.iter().for_each(|(k, v)| {
                k.atoms(out);
                v.atoms(out);
            }),
            _ => {}
        }
    }
    pub fn short(&self) -> String {
        let s = format!("{:?}", self);
        if s.chars().count() > 160 { format!("{}…({} chars)", s.chars().take(150).collect::<String>(), s.chars().count()) } else { s }
    }
}

// ---------------------------------------------------------------------------
// Encoder
// ---------------------------------------------------------------------------

/// Position of each atom in the distribution header of the message being
/// written (ATOM_CACHE_REF carries the *position*, not the cache slot).
pub type AtomPositions = HashMap<String, u8>;

thread_local! {
    /// While set, identifiers whose creation fits in one byte are written with the older tags
    /// (PID_EXT 103, PORT_EXT 102, NEW_REFERENCE_EXT 114), as older peers and other libraries do.
    pub static LEGACY_IDS: std::cell::Cell<bool> = const { std::cell::Cell::new(false) };
}

/// Runs `f` with the older identifier tags switched on or off.
pub fn with_legacy_ids<T>(on: bool, f: impl FnOnce() -> T) -> T {
    let before = LEGACY_IDS.with(|c| c.replace(on));
    let r = f();
    LEGACY_IDS.with(|c| c.set(before));
    r
}

pub fn enc_term(out: &mut Vec<u8>, v: &Val, pos: Option<&AtomPositions>) {
    match v {
        Val::Int(neg, mag) => {
            let small = v.as_i64();
            match small {
                Some(x) if (0..=255).contains(&x) => {
                    out.push(97);
                    out.push(x as u8);
                }
                Some(x) if x >= i64::from(i32::MIN) && x <= i64::from(i32::MAX) => {
                    out.push(98);
                    out.extend_from_slice(&(x as i32).to_be_bytes());
                }
                _ => {
                    if mag.len() <= 255 {
                        out.push(110);
                        out.push(mag.len() as u8);
                    } else {
                        out.push(111);
                        out.extend_from_slice(&(mag.len() as u32).to_be_bytes());
                    }
                    out.push(u8::from(*neg));
                    out.extend_from_slice(mag);
                }
            }
        }
        Val::Float(bits) => {
            out.push(70);
            out.extend_from_slice(&bits.to_be_bytes());
        }
        Val::Atom(s) => enc_atom(out, s, pos),
        Val::Bin(b) => {
            out.push(109);
            out.extend_from_slice(&(b.len() as u32).to_be_bytes());
            out.extend_from_slice(b);
        }
        Val::BitBin(b, bits) => {
            out.push(77);
            out.extend_from_slice(&(b.len() as u32).to_be_bytes());
            out.push(*bits);
            out.extend_from_slice(b);
        }
        Val::Tuple(t) => {
            if t.len() <= 255 {
                out.push(104);
                out.push(t.len() as u8);
            } else {
                out.push(105);
                out.extend_from_slice(&(t.len() as u32).to_be_bytes());
            }
            for x in t {
                enc_term(out, x, pos);
            }
        }
        Val::Nil => out.push(106),
        Val::List(els, tail) => {
            out.push(108);
            out.extend_from_slice(&(els.len() as u32).to_be_bytes());
            for x in els {
                enc_term(out, x, pos);
            }
            enc_term(out, tail, pos);
        }
        Val::Map(kv) => {
            out.push(116);
            out.extend_from_slice(&(kv.len() as u32).to_be_bytes());
            for (k, x) in kv {
                enc_term(out, k, pos);
                enc_term(out, x, pos);
            }
        }
        Val::Pid { node, id, serial, creation } if *creation <= 255 && LEGACY_IDS.with(|c| c.get()) => {
            out.push(103);
            enc_atom(out, node, pos);
            out.extend_from_slice(&id.to_be_bytes());
            out.extend_from_slice(&serial.to_be_bytes());
            out.push(*creation as u8);
        }
        Val::Pid { node, id, serial, creation } => {
            out.push(88);
            enc_atom(out, node, pos);
            out.extend_from_slice(&id.to_be_bytes());
            out.extend_from_slice(&serial.to_be_bytes());
            out.extend_from_slice(&creation.to_be_bytes());
        }
        Val::Port { node, id, creation } if *creation <= 255 && *id <= u64::from(u32::MAX) && LEGACY_IDS.with(|c| c.get()) => {
            out.push(102);
            enc_atom(out, node, pos);
            out.extend_from_slice(&(*id as u32).to_be_bytes());
            out.push(*creation as u8);
        }
        Val::Port { node, id, creation } => {
            out.push(120);
            enc_atom(out, node, pos);
            out.extend_from_slice(&id.to_be_bytes());
            out.extend_from_slice(&creation.to_be_bytes());
        }
        Val::Export(m, f, a) => {
            out.push(113);
            enc_atom(out, m, pos);
            enc_atom(out, f, pos);
            out.push(97);
            out.push(*a);
        }
        Val::Local(hash, inner) => {
            out.push(121);
            out.extend_from_slice(hash);
            // inside the node-local form atoms are always written inline
            enc_term(out, inner, None);
        }
        Val::Ref { node, creation, ids } if *creation <= 255 && LEGACY_IDS.with(|c| c.get()) => {
            out.push(114);
            out.extend_from_slice(&(ids.len() as u16).to_be_bytes());
            enc_atom(out, node, pos);
            out.push(*creation as u8);
            for i in ids {
                out.extend_from_slice(&i.to_be_bytes());
            }
        }
        Val::Ref { node, creation, ids } => {
            out.push(90);
            out.extend_from_slice(&(ids.len() as u16).to_be_bytes());
            enc_atom(out, node, pos);
            out.extend_from_slice(&creation.to_be_bytes());
            for i in ids {
                out.extend_from_slice(&i.to_be_bytes());
            }
        }
    }
}

fn enc_atom(out: &mut Vec<u8>, s: &str, pos: Option<&AtomPositions>) {
    if let Some(p) = pos.and_then(|m| m.get(s)) {
        out.push(82);
        out.push(*p);
        return;
    }
    let b = s.as_bytes();
    if b.len() <= 255 {
        out.push(119);
        out.push(b.len() as u8);
    } else {
        out.push(118);
        out.extend_from_slice(&(b.len() as u16).to_be_bytes());
    }
    out.extend_from_slice(b);
}

/// 131 + term
pub fn enc_versioned(v: &Val) -> Vec<u8> {
    let mut out = vec![131];
    enc_term(&mut out, v, None);
    out
}

// ---------------------------------------------------------------------------
// Decoder
// ---------------------------------------------------------------------------

pub struct Cur<'a> {
    pub b: &'a [u8],
    pub p: usize,
}

impl<'a> Cur<'a> {
    pub fn new(b: &'a [u8]) -> Self {
        Cur { b, p: 0 }
    }
    pub fn left(&self) -> usize {
        self.b.len() - self.p
    }
    pub fn take(&mut self, n: usize) -> Result<&'a [u8], String> {
        if self.left() < n {
            return Err(format!("short input: need {} at {}, have {}", n, self.p, self.left()));
        }
        let s = &self.b[self.p..self.p + n];
        self.p += n;
        Ok(s)
    }
    pub fn u8(&mut self) -> Result<u8, String> {
        Ok(self.take(1)?[0])
    }
    pub fn u16(&mut self) -> Result<u16, String> {
        let s = self.take(2)?;
        Ok(u16::from_be_bytes([s[0], s[1]]))
    }
    pub fn u32(&mut self) -> Result<u32, String> {
        let s = self.take(4)?;
        Ok(u32::from_be_bytes([s[0], s[1], s[2], s[3]]))
    }
    pub fn u64(&mut self) -> Result<u64, String> {
        let s = self.take(8)?;
        let mut a = [0u8; 8];
        a.copy_from_slice(s);
        Ok(u64::from_be_bytes(a))
    }
}

fn norm_int(neg: bool, mut mag: Vec<u8>) -> Val {
    while mag.last() == Some(&0) {
        mag.pop();
    }
    Val::Int(neg && !mag.is_empty(), mag)
}

fn utf8(b: &[u8]) -> Result<String, String> {
    String::from_utf8(b.to_vec()).map_err(|_| "atom text is not UTF-8".to_string())
}

/// `hdr_atoms`: atoms of the current message's distribution header, by position.
pub fn dec_term(c: &mut Cur<'_>, hdr_atoms: &[String], depth: u32) -> Result<Val, String> {
    if depth > 2000 {
        return Err("nesting too deep".into());
    }
    let tag = c.u8()?;
    Ok(match tag {
        97 => Val::int(i128::from(c.u8()?)),
        98 => Val::int(i128::from(c.u32()? as i32)),
        110 | 111 => {
            let n = if tag == 110 { usize::from(c.u8()?) } else { c.u32()? as usize };
            let sign = c.u8()?;
            norm_int(sign != 0, c.take(n)?.to_vec())
        }
        70 => Val::Float(c.u64()?),
        119 | 115 => {
            let n = usize::from(c.u8()?);
            if tag == 119 { Val::Atom(utf8(c.take(n)?)?) } else { Val::Atom(c.take(n)?.iter().map(|b| *b as char).collect()) }
        }
        118 | 100 => {
            let n = usize::from(c.u16()?);
            if tag == 118 { Val::Atom(utf8(c.take(n)?)?) } else { Val::Atom(c.take(n)?.iter().map(|b| *b as char).collect()) }
        }
        82 => {
            let p = usize::from(c.u8()?);
            match hdr_atoms.get(p) {
                Some(a) => Val::Atom(a.clone()),
                None => return Err(format!("ATOM_CACHE_REF {} beyond the {} header entries", p, hdr_atoms.len())),
            }
        }
        109 => {
            let n = c.u32()? as usize;
            Val::Bin(c.take(n)?.to_vec())
        }
        77 => {
            let n = c.u32()? as usize;
            let bits = c.u8()?;
            Val::BitBin(c.take(n)?.to_vec(), bits)
        }
        104 | 105 => {
            let n = if tag == 104 { usize::from(c.u8()?) } else { c.u32()? as usize };
            if n > c.left() {
                return Err("tuple arity exceeds input".into());
            }
            let mut v = Vec::with_capacity(n);
            for _ in 0..n {
                v.push(dec_term(c, hdr_atoms, depth + 1)?);
            }
            Val::Tuple(v)
        }
        106 => Val::Nil,
        107 => {
            let n = usize::from(c.u16()?);
            Val::list(c.take(n)?.iter().map(|b| Val::int(i128::from(*b))).collect())
        }
        108 => {
            let n = c.u32()? as usize;
            if n > c.left() {
                return Err("list length exceeds input".into());
            }
            let mut v = Vec::with_capacity(n);
            for _ in 0..n {
                v.push(dec_term(c, hdr_atoms, depth + 1)?);
            }
            let tail = dec_term(c, hdr_atoms, depth + 1)?;
            if v.is_empty() { tail } else { Val::List(v, Box::new(tail)) }
        }
        116 => {
            let n = c.u32()? as usize;
            if n > c.left() {
                return Err("map size exceeds input".into());
            }
            let mut kv = Vec::with_capacity(n);
            for _ in 0..n {
                let k = dec_term(c, hdr_atoms, depth + 1)?;
                let v = dec_term(c, hdr_atoms, depth + 1)?;
                kv.push((k, v));
            }
            let before = kv.len();
            let m = Val::map(kv);
            if let Val::Map(ref x) = m {
                if x.len() != before {
                    return Err("duplicate map keys".into());
                }
            }
            m
        }
        88 | 103 => {
            let node = dec_atom(c, hdr_atoms, depth)?;
            let id = c.u32()?;
            let serial = c.u32()?;
            let creation = if tag == 88 { c.u32()? } else { u32::from(c.u8()?) };
            Val::Pid { node, id, serial, creation }
        }
        120 => {
            let node = dec_atom(c, hdr_atoms, depth)?;
            let id = c.u64()?;
            let creation = c.u32()?;
            Val::Port { node, id, creation }
        }
        90 => {
            let n = usize::from(c.u16()?);
            let node = dec_atom(c, hdr_atoms, depth)?;
            let creation = c.u32()?;
            let mut ids = Vec::new();
            for _ in 0..n {
                ids.push(c.u32()?);
            }
            Val::Ref { node, creation, ids }
        }
        113 => {
            let m = dec_atom(c, hdr_atoms, depth)?;
            let f = dec_atom(c, hdr_atoms, depth)?;
            let a = match dec_term(c, hdr_atoms, depth + 1)?.as_i64() {
                Some(a) if (0..=255).contains(&a) => a as u8,
                _ => return Err("EXPORT_EXT arity is not a small integer".into()),
            };
            Val::Export(m, f, a)
        }
        121 => {
            let hash = c.take(8)?.to_vec();
            let inner = dec_term(c, hdr_atoms, depth + 1)?;
            Val::Local(hash, Box::new(inner))
        }
        other => return Err(format!("tag {} not expected from this library", other)),
    })
}

fn dec_atom(c: &mut Cur<'_>, hdr_atoms: &[String], depth: u32) -> Result<String, String> {
    // only an atom form may stand here
    match c.b.get(c.p) {
        Some(119 | 118 | 115 | 100 | 82) => {}
        other => return Err(format!("expected an atom, found tag {:?}", other)),
    }
    match dec_term(c, hdr_atoms, depth + 1)? {
        Val::Atom(s) => Ok(s),
        other => Err(format!("expected an atom, got {}", other.short())),
    }
}

// ---------------------------------------------------------------------------
// Distribution header
// ---------------------------------------------------------------------------

#[derive(Clone, Debug, PartialEq, Eq, Serialize, Deserialize)]
pub struct HdrRef {
    pub new: bool,
    pub seg: u8,
    pub idx: u8,
    pub atom: String,
}

/// Writes `NumberOfAtomCacheRefs | Flags | AtomCacheRefs` (what follows `131 68`
/// or the fragment id of a first fragment).
pub fn write_header_body(refs: &[HdrRef]) -> Vec<u8> {
    let n = refs.len();
    assert!(n <= 255);
    let mut out = vec![n as u8];
    if n == 0 {
        return out;
    }
    let long = refs.iter().any(|r| r.new && r.atom.len() > 255);
    let mut flags = vec![0u8; n / 2 + 1];
    for (i, r) in refs.iter().enumerate() {
        let nib = (if r.new { 8 } else { 0 }) | (r.seg & 7);
        flags[i / 2] |= if i % 2 == 0 { nib } else { nib << 4 };
    }
    if long {
        // the half byte after the last reference's half byte; LongAtoms is its least significant bit
        flags[n / 2] |= if n % 2 == 0 { 0x01 } else { 0x10 };
    }
    out.extend_from_slice(&flags);
    for r in refs {
        out.push(r.idx);
        if r.new {
            let b = r.atom.as_bytes();
            if long {
                out.extend_from_slice(&(b.len() as u16).to_be_bytes());
            } else {
                out.push(b.len() as u8);
            }
            out.extend_from_slice(b);
        }
    }
    out
}

/// Receiver-side cache of an independent reader: 8 segments x 256 entries.
#[derive(Clone, Debug, Default)]
pub struct RecvCache {
    pub slots: HashMap<(u8, u8), String>,
}

/// Reads the header body, updating the cache; returns the atoms by position.
pub fn read_header_body(c: &mut Cur<'_>, cache: &mut RecvCache) -> Result<Vec<String>, String> {
    let n = usize::from(c.u8()?);
    if n == 0 {
        return Ok(Vec::new());
    }
    let flags = c.take(n / 2 + 1)?.to_vec();
    let nib = |i: usize| -> u8 { if i % 2 == 0 { flags[i / 2] & 0x0f } else { flags[i / 2] >> 4 } };
    let long = nib(n) & 1 != 0;
    let mut atoms = Vec::with_capacity(n);
    for i in 0..n {
        let f = nib(i);
        let seg = f & 7;
        let idx = c.u8()?;
        if f & 8 != 0 {
            let len = if long { usize::from(c.u16()?) } else { usize::from(c.u8()?) };
            let text = utf8(c.take(len)?)?;
            cache.slots.insert((seg, idx), text.clone());
            atoms.push(text);
        } else {
            match cache.slots.get(&(seg, idx)) {
                Some(a) => atoms.push(a.clone()),
                None => return Err(format!("reference to empty cache slot ({},{})", seg, idx)),
            }
        }
    }
    Ok(atoms)
}

// ---------------------------------------------------------------------------
// Distribution frames as an independent reader sees them
// ---------------------------------------------------------------------------

#[derive(Clone, Debug, PartialEq, Eq)]
pub struct DistMsg {
    pub control: Val,
    pub payload: Option<Val>,
    /// 112 = pass-through, 68 = distribution header
    pub form: u8,
    pub hdr_atoms: usize,
}

/// Parses the body of one distribution frame (after the 4-byte length), as sent
/// by this library: pass-through `112 131 ctl [131 msg]` or `131 68 hdr ctl [msg]`.
pub fn parse_dist_frame(body: &[u8], cache: &mut RecvCache) -> Result<DistMsg, String> {
    if body.is_empty() {
        return Err("tick".into());
    }
    let mut c = Cur::new(body);
    let first = c.u8()?;
    if first == 112 {
        if c.u8()? != 131 {
            return Err("pass-through: control term lacks version byte 131".into());
        }
        let control = dec_term(&mut c, &[], 0)?;
        let payload = if c.left() > 0 {
            if c.u8()? != 131 {
                return Err("pass-through: message term lacks version byte 131".into());
            }
            Some(dec_term(&mut c, &[], 0)?)
        } else {
            None
        };
        if c.left() != 0 {
            return Err(format!("{} bytes left over after the message", c.left()));
        }
        Ok(DistMsg { control, payload, form: 112, hdr_atoms: 0 })
    } else if first == 131 {
        let t = c.u8()?;
        if t != 68 {
            return Err(format!("131 followed by {} (expected distribution header 68)", t));
        }
        let atoms = read_header_body(&mut c, cache)?;
        let control = dec_term(&mut c, &atoms, 0)?;
        let payload = if c.left() > 0 { Some(dec_term(&mut c, &atoms, 0)?) } else { None };
        if c.left() != 0 {
            return Err(format!("{} bytes left over after the message", c.left()));
        }
        Ok(DistMsg { control, payload, form: 68, hdr_atoms: atoms.len() })
    } else {
        Err(format!("frame starts with {} (expected 112 or 131)", first))
    }
}

/// Splits a byte stream into 4-byte-length-prefixed frames; returns the frames
/// and the number of bytes left over (an incomplete frame).
pub fn split_frames4(stream: &[u8]) -> (Vec<Vec<u8>>, usize) {
    let mut out = Vec::new();
    let mut p = 0;
    while stream.len() - p >= 4 {
        let n = u32::from_be_bytes([stream[p], stream[p + 1], stream[p + 2], stream[p + 3]]) as usize;
        if stream.len() - p - 4 < n {
            break;
        }
        out.push(stream[p + 4..p + 4 + n].to_vec());
        p += 4 + n;
    }
    (out, stream.len() - p)
}

pub fn frame4(body: &[u8]) -> Vec<u8> {
    let mut out = (body.len() as u32).to_be_bytes().to_vec();
    out.extend_from_slice(body);
    out
}

pub fn frame2(body: &[u8]) -> Vec<u8> {
    let mut out = (body.len() as u16).to_be_bytes().to_vec();
    out.extend_from_slice(body);
    out
}

pub fn pass_through(control: &Val, payload: Option<&Val>) -> Vec<u8> {
    let mut out = vec![112];
    out.extend_from_slice(&enc_versioned(control));
    if let Some(p) = payload {
        out.extend_from_slice(&enc_versioned(p));
    }
    out
}

/// `131 68 header control [message]`; `refs` fixes which atoms go through the
/// header (all others stay inline) and at which position.
pub fn with_dist_header(control: &Val, payload: Option<&Val>, refs: &[HdrRef]) -> Vec<u8> {
    let mut out = vec![131, 68];
    out.extend_from_slice(&header_and_terms(control, payload, refs));
    out
}

pub fn header_and_terms(control: &Val, payload: Option<&Val>, refs: &[HdrRef]) -> Vec<u8> {
    let mut out = write_header_body(refs);
    let mut pos = AtomPositions::new();
    for (i, r) in refs.iter().enumerate() {
        pos.entry(r.atom.clone()).or_insert(i as u8);
    }
    enc_term(&mut out, control, Some(&pos));
    if let Some(p) = payload {
        enc_term(&mut out, p, Some(&pos));
    }
    out
}

/// Fragments `data` (= header_and_terms output) at the given cut points, as the
/// protocol prescribes: first `131 69 seq N data0`, then `131 70 seq k data_k` for k = N-1..1.
pub fn fragment(seq: u64, data: &[u8], cuts: &[usize]) -> Vec<Vec<u8>> {
    let mut bounds = vec![0usize];
    for c in cuts {
        let c = (*c).min(data.len());
        if c > *bounds.last().unwrap() {
            bounds.push(c);
        }
    }
    if *bounds.last().unwrap() < data.len() || bounds.len() == 1 {
        bounds.push(data.len());
    }
    let n = bounds.len() - 1;
    let mut out = Vec::new();
    for i in 0..n {
        let id = (n - i) as u64;
        let mut f = vec![131, if i == 0 { 69 } else { 70 }];
        f.extend_from_slice(&seq.to_be_bytes());
        f.extend_from_slice(&id.to_be_bytes());
        f.extend_from_slice(&data[bounds[i]..bounds[i + 1]]);
        out.push(f);
    }
    out
}

// ---------------------------------------------------------------------------
// Handshake
// ---------------------------------------------------------------------------

/// MD5(cookie ++ decimal(challenge))
pub fn digest(cookie: &str, challenge: u32) -> [u8; 16] {
    let mut text = cookie.as_bytes().to_vec();
    let mut digits = Vec::new();
    let mut c = challenge;
    loop {
        digits.push(b'0' + (c % 10) as u8);
        c /= 10;
        if c == 0 {
            break;
        }
    }
    digits.reverse();
    text.extend_from_slice(&digits);
    let mut h = Md5::new();
    h.update(&text);
    h.finalize().into()
}

pub fn hs_status(text: &str) -> Vec<u8> {
    let mut b = vec![b's'];
    b.extend_from_slice(text.as_bytes());
    b
}

/// 'N' flags(8) challenge(4) creation(4) nlen(2) name
pub fn hs_challenge(flags: u64, challenge: u32, creation: u32, name: &str) -> Vec<u8> {
    let mut b = vec![b'N'];
    b.extend_from_slice(&flags.to_be_bytes());
    b.extend_from_slice(&challenge.to_be_bytes());
    b.extend_from_slice(&creation.to_be_bytes());
    b.extend_from_slice(&(name.len() as u16).to_be_bytes());
    b.extend_from_slice(name.as_bytes());
    b
}

pub fn hs_ack(digest: &[u8; 16]) -> Vec<u8> {
    let mut b = vec![b'a'];
    b.extend_from_slice(digest);
    b
}

#[derive(Debug, Clone, PartialEq, Eq)]
pub struct OldName {
    pub version: u16,
    pub flags_low: u32,
    pub name: Vec<u8>,
}

/// 'n' version(2) flags(4) name
pub fn parse_old_name(body: &[u8]) -> Result<OldName, String> {
    let mut c = Cur::new(body);
    if c.u8()? != b'n' {
        return Err("send_name: tag is not 'n'".into());
    }
    let version = c.u16()?;
    let flags_low = c.u32()?;
    let name = c.take(c.left())?.to_vec();
    Ok(OldName { version, flags_low, name })
}

/// What the initiator announced about itself, whichever of the two prescribed layouts it used.
#[derive(Debug, Clone, PartialEq, Eq)]
pub struct SentName {
    /// true: 'N' flags(8) creation(4) nlen(2) name (no complement follows); false: 'n' 0005 flags(4) name
    pub new_format: bool,
    /// all 64 bits for 'N'; the low 32 bits for 'n' (the high half travels in the complement)
    pub flags: u64,
    pub creation: Option<u32>,
    pub name: Vec<u8>,
}

pub fn parse_send_name(body: &[u8]) -> Result<SentName, String> {
    match body.first() {
        Some(b'n') => {
            let n = parse_old_name(body)?;
            if n.version != 5 {
                return Err(format!("send_name: version {} instead of 5", n.version));
            }
            Ok(SentName { new_format: false, flags: u64::from(n.flags_low), creation: None, name: n.name })
        }
        Some(b'N') => {
            let mut c = Cur::new(&body[1..]);
            let flags = c.u64()?;
            let creation = c.u32()?;
            let nlen = usize::from(c.u16()?);
            let name = c.take(nlen)?.to_vec();
            if c.left() != 0 {
                return Err("send_name 'N': trailing bytes".into());
            }
            Ok(SentName { new_format: true, flags, creation: Some(creation), name })
        }
        other => Err(format!("send_name: tag {:?} is neither 'n' nor 'N'", other)),
    }
}

/// 'c' flagsHigh(4) creation(4)
pub fn parse_complement(body: &[u8]) -> Result<(u32, u32), String> {
    let mut c = Cur::new(body);
    if c.u8()? != b'c' {
        return Err("complement: tag is not 'c'".into());
    }
    let hi = c.u32()?;
    let cr = c.u32()?;
    if c.left() != 0 {
        return Err("complement: trailing bytes".into());
    }
    Ok((hi, cr))
}

/// 'r' challenge(4) digest(16)
pub fn parse_reply(body: &[u8]) -> Result<(u32, [u8; 16]), String> {
    let mut c = Cur::new(body);
    if c.u8()? != b'r' {
        return Err("challenge_reply: tag is not 'r'".into());
    }
    let ch = c.u32()?;
    let mut d = [0u8; 16];
    d.copy_from_slice(c.take(16)?);
    if c.left() != 0 {
        return Err("challenge_reply: trailing bytes".into());
    }
    Ok((ch, d))
}

// ---------------------------------------------------------------------------
// Generators (payload sub-space with an unambiguous denotation, see DESIGN 2.4)
// ---------------------------------------------------------------------------

const ATOM_POOL: &[&str] = &[
    "ok", "error", "undefined", "true", "false", "a", "b", "foo", "bar_baz", "Elixir.Enum", "rex", "nonode@nohost",
    "$gen_call", "ünïcödé", "日本語", "with space", "", "x1", "x2", "x3", "x4", "x5", "x6", "x7",
];

pub fn gen_atom(r: &mut Rng) -> String {
    match r.below(10) {
        0 => {
            let n = r.range(1, 12) as usize;
            (0..n).map(|_| (b'a' + r.below(26) as u8) as char).collect()
        }
        1 => {
            if r.chance(1, 3) {
                // at most 255 characters but more than 255 bytes
                let c = *r.pick(&['é', '日', 'ß']);
                c.to_string().repeat(r.range(130, 255) as usize)
            } else {
                // long-ish atom up to 255 bytes
                let n = r.range(200, 255) as usize;
                (0..n).map(|_| (b'a' + r.below(26) as u8) as char).collect()
            }
        }
        _ => (*r.pick(ATOM_POOL)).to_string(),
    }
}

pub fn gen_int(r: &mut Rng) -> Val {
    match r.below(12) {
        0 => Val::int(0),
        1 => Val::int(255),
        2 => Val::int(256),
        3 => Val::int(-1),
        4 => Val::int(i128::from(i32::MAX) + r.below(3) as i128 - 1),
        5 => Val::int(i128::from(i32::MIN) + r.below(3) as i128 - 1),
        6 => Val::int(i128::from(i64::MAX) + r.below(3) as i128 - 1),
        7 => Val::int(i128::from(i64::MIN) + r.below(3) as i128 - 1),
        8 => {
            // bignum of 9..40 bytes
            let n = r.range(9, 40) as usize;
            let mut mag = r.bytes(n);
            if *mag.last().unwrap() == 0 {
                *mag.last_mut().unwrap() = 1;
            }
            Val::Int(r.chance(1, 2), mag)
        }
        9 => Val::int(r.next_u64() as i64 as i128),
        _ => Val::int(r.below(100_000) as i128 - 50_000),
    }
}

pub fn gen_node(r: &mut Rng) -> String {
    match r.below(14) {
        // a host part long enough to make the node name an atom of more than 255 bytes
        0 => format!("n@{}", "h".repeat(r.range(254, 600) as usize)),
        1 => format!("n@{}", "ü".repeat(r.range(127, 300) as usize)),
        _ => (*r.pick(&["peer@host", "sut@host", "other@elsewhere", "n@h"])).to_string(),
    }
}

pub fn gen_pid(r: &mut Rng, node: Option<&str>) -> Val {
    Val::Pid {
        node: node.map(|s| s.to_string()).unwrap_or_else(|| gen_node(r)),
        id: r.next_u32() >> r.below(32),
        serial: r.next_u32() >> r.below(32),
        creation: r.next_u32() >> r.below(32),
    }
}

pub fn gen_ref(r: &mut Rng, node: Option<&str>) -> Val {
    let n = r.range(1, 5) as usize;
    Val::Ref {
        node: node.map(|s| s.to_string()).unwrap_or_else(|| gen_node(r)),
        creation: r.next_u32() >> r.below(32),
        ids: (0..n).map(|_| r.next_u32()).collect(),
    }
}

/// `size` bounds the number of nodes roughly.
pub fn gen_val(r: &mut Rng, size: u32) -> Val {
    let leaf = size <= 1 || r.chance(1, 3);
    if leaf {
        return match r.below(11) {
            9 => {
                let p = Val::Port { node: gen_node(r), id: r.next_u64() >> r.below(64), creation: r.next_u32() >> r.below(32) };
                if r.chance(1, 4) { Val::Local(r.bytes(8), Box::new(p)) } else { p }
            }
            10 => {
                if r.chance(1, 2) {
                    Val::Export(gen_atom(r), gen_atom(r), r.below(256) as u8)
                } else {
                    // a bigger binary now and then (the really big ones only where the caller asked for size)
                    let n = if size >= 150 && r.chance(1, 8) {
                        r.range(60_000, 140_000) as usize
                    } else if size >= 8 {
                        r.range(300, 3000) as usize
                    } else {
                        r.range(0, 64) as usize
                    };
                    Val::Bin(r.bytes(n))
                }
            }
            0 | 1 => Val::Atom(gen_atom(r)),
            2 | 3 => gen_int(r),
            4 => {
                let f = match r.below(5) {
                    0 => 0.0f64,
                    1 => -0.0,
                    2 => 1.5,
                    3 => f64::MAX,
                    _ => f64::from_bits(r.next_u64() & 0x7fef_ffff_ffff_ffff),
                };
                Val::Float(f.to_bits())
            }
            5 => {
                let n = r.below(40) as usize;
                Val::Bin(r.bytes(n))
            }
            6 => {
                let p = gen_pid(r, None);
                if r.chance(1, 4) { Val::Local(r.bytes(8), Box::new(p)) } else { p }
            }
            7 => {
                let x = gen_ref(r, None);
                if r.chance(1, 4) { Val::Local(r.bytes(8), Box::new(x)) } else { x }
            }
            _ => {
                let n = r.range(1, 6) as usize;
                let mut b = r.bytes(n);
                let bits = r.range(1, 7) as u8;
                // unused low bits of the last byte are zero in a well-formed bit string
                let last = b.len() - 1;
                b[last] &= 0xffu8 << (8 - bits);
                Val::BitBin(b, bits)
            }
        };
    }
    let n = r.range(0, 4.min(u64::from(size))) as usize;
    let sub = size.saturating_sub(1) / (n.max(1) as u32);
    match r.below(6) {
        4 => {
            // improper list: at least one element and a non-list tail
            let els: Vec<Val> = (0..n.max(1)).map(|_| gen_val(r, sub)).collect();
            let tail = if r.chance(1, 2) { Val::Atom(gen_atom(r)) } else { gen_int(r) };
            Val::List(els, Box::new(tail))
        }
        5 => {
            if r.chance(1, 6) {
                // arity above 255 needs the large tuple tag
                Val::Tuple((0..r.range(256, 300)).map(|i| Val::int(i as i128)).collect())
            } else {
                Val::Tuple((0..n).map(|_| gen_val(r, sub)).collect())
            }
        }
        0 => Val::Tuple((0..n).map(|_| gen_val(r, sub)).collect()),
        1 => {
            // proper list whose elements are not all bytes (would be STRING_EXT territory)
            let mut els: Vec<Val> = (0..n).map(|_| gen_val(r, sub)).collect();
            if !els.is_empty() && els.iter().all(|e| matches!(e.as_i64(), Some(0..=255))) {
                els.push(Val::atom("not_a_string"));
            }
            Val::list(els)
        }
        2 => Val::map(
            (0..n)
                .map(|i| {
                    let k = if r.chance(1, 2) { Val::Atom(format!("k{}", i)) } else { Val::int(i as i128 * 1000 + 300) };
                    (k, gen_val(r, sub))
                })
                .collect(),
        ),
        _ => Val::Tuple((0..n.max(1)).map(|_| gen_val(r, sub)).collect()),
    }
}

pub fn hex(b: &[u8]) -> String {
    let mut s = String::with_capacity(b.len() * 2);
    for (i, x) in b.iter().enumerate() {
        if i >= 64 {
            s.push_str(&format!("…(+{})", b.len() - 64));
            break;
        }
        s.push_str(&format!("{:02x}", x));
    }
    s
}

#[cfg(test)]
mod tests {
    use super::*;

    #[test]
    fn digest_matches_known_vector() {
        // erlang: erlang:md5("cookie" ++ integer_to_list(12345))
        let d = digest("cookie", 12345);
        let mut h = Md5::new();
        h.update(b"cookie12345");
        let e: [u8; 16] = h.finalize().into();
        assert_eq!(d, e);
    }

    #[test]
    fn roundtrip_own_codec() {
        let mut r = Rng::new(7);
        for _ in 0..2000 {
            let v = gen_val(&mut r, 12);
            let b = enc_versioned(&v);
            let mut c = Cur::new(&b[1..]);
            let back = dec_term(&mut c, &[], 0).unwrap();
            assert_eq!(c.left(), 0);
            assert_eq!(back, v);
        }
    }

    #[test]
    fn header_roundtrip_with_long_atoms_both_parities() {
        for n in [1usize, 2, 3, 4, 7, 8] {
            let refs: Vec<HdrRef> = (0..n)
                .map(|i| HdrRef { new: true, seg: (i % 8) as u8, idx: (200 + i) as u8, atom: if i == 0 { "x".repeat(300) } else { format!("a{}", i) } })
                .collect();
            let b = write_header_body(&refs);
            let mut cache = RecvCache::default();
            let mut c = Cur::new(&b);
            let atoms = read_header_body(&mut c, &mut cache).unwrap();
            assert_eq!(c.left(), 0);
            assert_eq!(atoms, refs.iter().map(|r| r.atom.clone()).collect::<Vec<_>>());
        }
    }
}
