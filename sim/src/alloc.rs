//! Counting global allocator: per-thread high-water mark of a single request.

use std::alloc::{GlobalAlloc, Layout, System};
use std::cell::Cell;

pub struct CountingAlloc;

thread_local! {
    static MAX_REQ: Cell<usize> = const { Cell::new(0) };
}

fn note(size: usize) {
    let _ = MAX_REQ.try_with(|m| {
        if size > m.get() {
            m.set(size);
        }
    });
}

unsafe impl GlobalAlloc for CountingAlloc {
    unsafe fn alloc(&self, layout: Layout) -> *mut u8 {
        note(layout.size());
        unsafe { System.alloc(layout) }
    }
    unsafe fn alloc_zeroed(&self, layout: Layout) -> *mut u8 {
        note(layout.size());
        unsafe { System.alloc_zeroed(layout) }
    }
    unsafe fn realloc(&self, ptr: *mut u8, layout: Layout, new_size: usize) -> *mut u8 {
        note(new_size);
        unsafe { System.realloc(ptr, layout, new_size) }
    }
    unsafe fn dealloc(&self, ptr: *mut u8, layout: Layout) {
        unsafe { System.dealloc(ptr, layout) }
    }
}

pub fn reset_max_request() {
    MAX_REQ.with(|m| m.set(0));
}

pub fn max_request() -> usize {
    MAX_REQ.with(|m| m.get())
}
