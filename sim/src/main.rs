//! Deterministic simulation with fault injection for edp-rs. See /verif/DESIGN.md.

#![allow(dead_code)]
mod alloc;
mod conv;
mod core;
mod net;
mod nodeenv;
mod peer;
mod procs;
mod runner;
mod sender;
mod tracesub;
mod scen;
mod wire;

use runner::{CheckOpts, Tier};

#[global_allocator]
static GLOBAL: alloc::CountingAlloc = alloc::CountingAlloc;

fn env_u64(k: &str) -> Option<u64> {
    std::env::var(k).ok().and_then(|s| s.trim().parse().ok())
}

fn usage() -> ! {
    eprintln!("usage: edp_sim check <ID> [quick|thorough] | replay <file> [--trace] | one <ID> <index> [quick|thorough] [--trace] | list");
    std::process::exit(2);
}

fn main() {
    core::install_panic_hook();
    // logging turned all the way up, process-wide (see tracesub.rs)
    let _ = tracing::subscriber::set_global_default(tracesub::FormatEverything::new());
    if log::set_logger(&tracesub::LOGGER).is_ok() {
        log::set_max_level(log::LevelFilter::Trace);
    }
    let args: Vec<String> = std::env::args().collect();
    if args.len() < 2 {
        usage();
    }
    let verif_dir = std::env::var("VERIF_DIR").unwrap_or_else(|_| "/verif".to_string());
    match args[1].as_str() {
        "list" => {
            for id in scen::ALL {
                println!("{}", id);
            }
        }
        "check" => {
            let id = args.get(2).unwrap_or_else(|| usage());
            let tier = match args.get(3).map(|s| s.as_str()).or(std::env::var("VERIF_TIER").ok().as_deref()) {
                Some("thorough") => Tier::Thorough,
                _ => Tier::Quick,
            };
            let Some(scn) = scen::by_id(id) else {
                eprintln!("unknown property {}", id);
                std::process::exit(2);
            };
            let opts = CheckOpts {
                seed: env_u64("VERIF_SEED").unwrap_or(20261003),
                tier,
                threads: env_u64("VERIF_THREADS").unwrap_or(16) as usize,
                runs_override: env_u64("VERIF_RUNS"),
                findings_path: format!("{}/known_findings.json", verif_dir),
                evidence_dir: format!("{}/evidence", verif_dir),
                replay_dir: format!("{}/replays", verif_dir),
            };
            std::process::exit(runner::check(scn.as_ref(), &opts));
        }
        "digests" => {
            // prints "<index> <event-log digest>" for the first n runs of a tier: two invocations
            // (different processes, different worker counts) must print the same lines
            let id = args.get(2).unwrap_or_else(|| usage());
            let n: u64 = args.get(3).and_then(|s| s.parse().ok()).unwrap_or(1000);
            let tier = if args.iter().any(|a| a == "thorough") { Tier::Thorough } else { Tier::Quick };
            let Some(scn) = scen::by_id(id) else { usage() };
            let seed = env_u64("VERIF_SEED").unwrap_or(20261003);
            let threads = env_u64("VERIF_THREADS").unwrap_or(16) as usize;
            let out = std::sync::Mutex::new(vec![0u64; n as usize]);
            let next = std::sync::atomic::AtomicU64::new(0);
            std::thread::scope(|s| {
                for _ in 0..threads {
                    s.spawn(|| loop {
                        let i = next.fetch_add(1, std::sync::atomic::Ordering::Relaxed);
                        if i >= n {
                            break;
                        }
                        let (plan, tape) = runner::generate(scn.as_ref(), tier, seed, i);
                        let o = runner::run_isolated(scn.as_ref(), &plan, tape, false);
                        out.lock().unwrap()[i as usize] = o.digest;
                    });
                }
            });
            for (i, d) in out.lock().unwrap().iter().enumerate() {
                println!("{} {:016x}", i, d);
            }
        }
        "replay" => {
            let path = args.get(2).unwrap_or_else(|| usage());
            let text = std::fs::read_to_string(path).unwrap_or_else(|e| {
                eprintln!("cannot read {}: {}", path, e);
                std::process::exit(2);
            });
            let file: serde_json::Value = serde_json::from_str(&text).unwrap_or_else(|e| {
                eprintln!("bad replay file: {}", e);
                std::process::exit(2);
            });
            let id = file["scenario"].as_str().or(file["property"].as_str()).unwrap_or("");
            let Some(scn) = scen::by_id(id) else {
                eprintln!("unknown property {}", id);
                std::process::exit(2);
            };
            let trace = args.iter().any(|a| a == "--trace");
            std::process::exit(runner::replay(scn.as_ref(), &file, trace));
        }
        "find" => {
            // indexes (of the first n runs) whose plan, as JSON, contains the given text
            let id = args.get(2).unwrap_or_else(|| usage());
            let n: u64 = args.get(3).and_then(|s| s.parse().ok()).unwrap_or(1000);
            let needle = args.get(4).cloned().unwrap_or_default();
            let tier = if args.iter().any(|a| a == "thorough") { Tier::Thorough } else { Tier::Quick };
            let Some(scn) = scen::by_id(id) else { usage() };
            let seed = env_u64("VERIF_SEED").unwrap_or(20261003);
            for idx in 0..n {
                let (plan, _) = runner::generate(scn.as_ref(), tier, seed, idx);
                if serde_json::to_string(&plan).unwrap().contains(&needle) {
                    println!("{}", idx);
                }
            }
        }
        "one" => {
            let id = args.get(2).unwrap_or_else(|| usage());
            let idx: u64 = args.get(3).and_then(|s| s.parse().ok()).unwrap_or_else(|| usage());
            let tier = if args.iter().any(|a| a == "thorough") { Tier::Thorough } else { Tier::Quick };
            let Some(scn) = scen::by_id(id) else { usage() };
            let seed = env_u64("VERIF_SEED").unwrap_or(20261003);
            let (plan, tape) = runner::generate(scn.as_ref(), tier, seed, idx);
            println!("plan: {}", serde_json::to_string(&plan).unwrap());
            let out = runner::run_isolated(scn.as_ref(), &plan, tape, true);
            for e in &out.events {
                println!("  {}", e);
            }
            for (c, d) in &out.violations {
                println!("violation class={} detail={}", c, d);
            }
            println!("digest={:016x} sim_ms={} tape={} stats={:?}", out.digest, out.sim_ms, out.tape.len(), out.stats);
        }
        _ => usage(),
    }
}
