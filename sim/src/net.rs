//! Simulated stream transport. One `Pipe` per direction; ends implement
//! AsyncRead / AsyncWrite. Segmentation, delays, stalls, short writes, spurious
//! Pending, back-pressure, EOF, reset and write errors are decided by the tape.

use crate::core::World;
use std::collections::VecDeque;
use std::future::Future;
use std::io;
use std::pin::Pin;
use std::sync::{Arc, Mutex};
use std::task::{Context, Poll, Waker};
use std::time::Duration;
use tokio::io::{AsyncRead, AsyncWrite, ReadBuf};
use tokio::time::{Instant, Sleep};

#[derive(Clone, Copy, Debug, PartialEq, Eq, serde::Serialize, serde::Deserialize, Default)]
pub enum Chunking {
    /// Reads return everything that has arrived.
    #[default]
    Whole,
    /// Reads return a tape-chosen prefix of what has arrived.
    Random,
    /// Reads return one byte at a time.
    Byte,
}

/// Behaviour of one end of a pipe.
#[derive(PartialEq, Clone, Debug, serde::Serialize, serde::Deserialize, Default)]
pub struct EndCfg {
    #[serde(default)]
    pub chunking: Chunking,
    /// Out of 16: chance a read returns Pending once although data is there.
    #[serde(default)]
    pub spurious_16: u32,
    /// Out of 16: chance a write stalls (Pending, woken after a delay) first.
    #[serde(default)]
    pub stall_16: u32,
    /// Writes may accept only a prefix.
    #[serde(default)]
    pub short_writes: bool,
    /// Per-chunk delivery latency ceiling in ms (never reorders).
    #[serde(default)]
    pub latency_ms: u32,
    /// Longest stall / spurious delay in ms.
    #[serde(default)]
    pub max_delay_ms: u32,
}

struct Chunk {
    at: Instant,
    data: Vec<u8>,
    off: usize,
}

pub struct Pipe {
    q: VecDeque<Chunk>,
    buffered: usize,
    cap: usize,
    wr_closed: bool,
    reset: bool,
    rd_gone: bool,
    rd_waker: Option<Waker>,
    wr_waker: Option<Waker>,
    last_at: Option<Instant>,
    pub total_written: u64,
    pub total_read: u64,
    /// The write that would take total_written past this offset fails, and every later one.
    fail_writes_after: Option<(u64, io::ErrorKind)>,
    pub write_failed: bool,
    pub write_failed_at_ms: Option<u64>,
}

#[derive(Clone)]
pub struct PipeCtl(Arc<Mutex<Pipe>>);

impl PipeCtl {
    /// Abortive close seen by the reader: in-flight bytes are discarded.
    pub fn reset(&self) {
        let mut p = self.0.lock().unwrap();
        p.reset = true;
        p.q.clear();
        p.buffered = 0;
        if let Some(w) = p.rd_waker.take() {
            w.wake();
        }
        if let Some(w) = p.wr_waker.take() {
            w.wake();
        }
    }
    /// Orderly close of the writing side (EOF after in-flight bytes).
    pub fn close_write(&self) {
        let mut p = self.0.lock().unwrap();
        p.wr_closed = true;
        if let Some(w) = p.rd_waker.take() {
            w.wake();
        }
    }
    pub fn fail_writes_after(&self, offset: u64, kind: io::ErrorKind) {
        self.0.lock().unwrap().fail_writes_after = Some((offset, kind));
    }
    pub fn total_written(&self) -> u64 {
        self.0.lock().unwrap().total_written
    }
    pub fn total_read(&self) -> u64 {
        self.0.lock().unwrap().total_read
    }
    pub fn write_failed(&self) -> bool {
        self.0.lock().unwrap().write_failed
    }
    pub fn write_failed_at_ms(&self) -> Option<u64> {
        self.0.lock().unwrap().write_failed_at_ms
    }
    pub fn reader_gone(&self) -> bool {
        self.0.lock().unwrap().rd_gone
    }
    pub fn writer_closed(&self) -> bool {
        let p = self.0.lock().unwrap();
        p.wr_closed || p.reset
    }
}

pub struct ReadEnd {
    pipe: Arc<Mutex<Pipe>>,
    world: Arc<World>,
    cfg: EndCfg,
    sleep: Option<Pin<Box<Sleep>>>,
    spurious_pending: bool,
    tag: &'static str,
}

pub struct WriteEnd {
    pipe: Arc<Mutex<Pipe>>,
    world: Arc<World>,
    cfg: EndCfg,
    sleep: Option<Pin<Box<Sleep>>>,
    stalled: bool,
    tag: &'static str,
}

/// One direction of a connection. `cap` bounds the bytes in flight (0 = unbounded).
pub fn pipe(
    world: &Arc<World>,
    cap: usize,
    wcfg: EndCfg,
    rcfg: EndCfg,
    tag: &'static str,
) -> (WriteEnd, ReadEnd, PipeCtl) {
    let p = Arc::new(Mutex::new(Pipe {
        q: VecDeque::new(),
        buffered: 0,
        cap,
        wr_closed: false,
        reset: false,
        rd_gone: false,
        rd_waker: None,
        wr_waker: None,
        last_at: None,
        total_written: 0,
        total_read: 0,
        fail_writes_after: None,
        write_failed: false,
        write_failed_at_ms: None,
    }));
    (
        WriteEnd { pipe: p.clone(), world: world.clone(), cfg: wcfg, sleep: None, stalled: false, tag },
        ReadEnd { pipe: p.clone(), world: world.clone(), cfg: rcfg, sleep: None, spurious_pending: false, tag },
        PipeCtl(p),
    )
}

fn nettrace() -> bool {
    static T: std::sync::OnceLock<bool> = std::sync::OnceLock::new();
    *T.get_or_init(|| std::env::var("VERIF_NETTRACE").is_ok())
}

fn arm(sleep: &mut Option<Pin<Box<Sleep>>>, cx: &mut Context<'_>, at: Instant) -> Poll<()> {
    let mut s = Box::pin(tokio::time::sleep_until(at));
    match s.as_mut().poll(cx) {
        Poll::Ready(()) => Poll::Ready(()),
        Poll::Pending => {
            *sleep = Some(s);
            Poll::Pending
        }
    }
}

impl AsyncRead for ReadEnd {
    fn poll_read(
        mut self: Pin<&mut Self>,
        cx: &mut Context<'_>,
        buf: &mut ReadBuf<'_>,
    ) -> Poll<io::Result<()>> {
        let this = &mut *self;
        // A pending timer (arrival time or spurious delay) must elapse first.
        if let Some(s) = this.sleep.as_mut() {
            match s.as_mut().poll(cx) {
                Poll::Pending => return Poll::Pending,
                Poll::Ready(()) => this.sleep = None,
            }
        }
        if buf.remaining() == 0 {
            return Poll::Ready(Ok(()));
        }
        let now = Instant::now();
        let mut p = this.pipe.lock().unwrap();
        if p.reset {
            this.world.stat("net.read_reset_seen");
            return Poll::Ready(Err(io::Error::new(io::ErrorKind::ConnectionReset, "sim: connection reset")));
        }
        let front_at = p.q.front().map(|c| c.at);
        match front_at {
            None => {
                if p.wr_closed {
                    this.world.stat("net.read_eof_seen");
                    return Poll::Ready(Ok(()));
                }
                p.rd_waker = Some(cx.waker().clone());
                Poll::Pending
            }
            Some(at) if at > now => {
                drop(p);
                match arm(&mut this.sleep, cx, at) {
                    Poll::Ready(()) => {
                        cx.waker().wake_by_ref();
                        Poll::Pending
                    }
                    Poll::Pending => Poll::Pending,
                }
            }
            Some(_) => {
                // Data has arrived. Possibly pretend it has not, once.
                if this.cfg.spurious_16 > 0 && !this.spurious_pending {
                    drop(p);
                    if this.world.chance(this.cfg.spurious_16, 16) {
                        this.spurious_pending = true;
                        this.world.stat("net.spurious_pending");
                        let d = this.world.draw(this.cfg.max_delay_ms + 1);
                        if d == 0 {
                            cx.waker().wake_by_ref();
                            return Poll::Pending;
                        }
                        match arm(&mut this.sleep, cx, now + Duration::from_millis(u64::from(d))) {
                            Poll::Ready(()) => {
                                cx.waker().wake_by_ref();
                            }
                            Poll::Pending => {}
                        }
                        return Poll::Pending;
                    }
                    p = this.pipe.lock().unwrap();
                    if p.reset {
                        return Poll::Ready(Err(io::Error::new(
                            io::ErrorKind::ConnectionReset,
                            "sim: connection reset",
                        )));
                    }
                }
                this.spurious_pending = false;
                // How much has arrived, contiguous from the front?
                let mut avail = 0usize;
                let want = if this.cfg.chunking == Chunking::Byte { 1 } else { buf.remaining() };
                for c in p.q.iter() {
                    if c.at > now || avail > want {
                        break;
                    }
                    avail += c.data.len() - c.off;
                }
                let max = avail.min(buf.remaining());
                let take = match this.cfg.chunking {
                    Chunking::Whole => max,
                    Chunking::Byte => 1,
                    Chunking::Random => {
                        drop(p);
                        let d = this.world.draw(max as u32) as usize;
                        p = this.pipe.lock().unwrap();
                        max - d
                    }
                };
                let take = take.clamp(1, max);
                if take < avail {
                    this.world.stat("net.partial_read");
                }
                let mut left = take;
                while left > 0 {
                    let c = p.q.front_mut().expect("chunk");
                    let n = (c.data.len() - c.off).min(left);
                    buf.put_slice(&c.data[c.off..c.off + n]);
                    c.off += n;
                    left -= n;
                    if c.off == c.data.len() {
                        p.q.pop_front();
                    }
                }
                p.buffered -= take;
                p.total_read += take as u64;
                this.world.sig(0x5ead_0000 ^ take as u64);
                if nettrace() {
                    this.world.ev(format!("net {} read {} (buffered now {})", this.tag, take, p.buffered));
                }
                if let Some(w) = p.wr_waker.take() {
                    w.wake();
                }
                Poll::Ready(Ok(()))
            }
        }
    }
}

impl Drop for ReadEnd {
    fn drop(&mut self) {
        let mut p = self.pipe.lock().unwrap();
        p.rd_gone = true;
        if let Some(w) = p.wr_waker.take() {
            w.wake();
        }
    }
}

impl AsyncWrite for WriteEnd {
    fn poll_write(
        mut self: Pin<&mut Self>,
        cx: &mut Context<'_>,
        buf: &[u8],
    ) -> Poll<io::Result<usize>> {
        let this = &mut *self;
        if let Some(s) = this.sleep.as_mut() {
            match s.as_mut().poll(cx) {
                Poll::Pending => return Poll::Pending,
                Poll::Ready(()) => this.sleep = None,
            }
        }
        if buf.is_empty() {
            return Poll::Ready(Ok(0));
        }
        let now = Instant::now();
        {
            let mut p = this.pipe.lock().unwrap();
            if p.write_failed {
                return Poll::Ready(Err(io::Error::new(io::ErrorKind::BrokenPipe, "sim: broken pipe")));
            }
            if p.rd_gone || p.reset || p.wr_closed {
                this.world.stat("net.write_to_closed");
                return Poll::Ready(Err(io::Error::new(io::ErrorKind::BrokenPipe, "sim: peer closed")));
            }
            if let Some((off, kind)) = p.fail_writes_after {
                if p.total_written >= off {
                    p.write_failed = true;
                    p.write_failed_at_ms = Some(World::now_ms());
                    this.world.stat("fault.write_error");
                    this.world.ev(format!("{}: write error injected at offset {}", this.tag, p.total_written));
                    return Poll::Ready(Err(io::Error::new(kind, "sim: injected write error")));
                }
            }
            if p.cap > 0 && p.buffered >= p.cap {
                this.world.stat("net.backpressure");
                p.wr_waker = Some(cx.waker().clone());
                return Poll::Pending;
            }
        }
        if this.cfg.stall_16 > 0 && !this.stalled && this.world.chance(this.cfg.stall_16, 16) {
            this.stalled = true;
            this.world.stat("net.write_stall");
            let d = this.world.draw(this.cfg.max_delay_ms + 1);
            if d == 0 {
                cx.waker().wake_by_ref();
                return Poll::Pending;
            }
            match arm(&mut this.sleep, cx, now + Duration::from_millis(u64::from(d))) {
                Poll::Ready(()) => cx.waker().wake_by_ref(),
                Poll::Pending => {}
            }
            return Poll::Pending;
        }
        this.stalled = false;
        let mut n = buf.len();
        {
            let p = this.pipe.lock().unwrap();
            if p.cap > 0 {
                n = n.min(p.cap - p.buffered);
            }
            if let Some((off, _)) = p.fail_writes_after {
                // Accept only up to the fault offset; the next write fails.
                n = n.min((off - p.total_written) as usize).max(1);
            }
        }
        if this.cfg.short_writes && n > 1 {
            let d = this.world.draw(n as u32) as usize;
            if d > 0 {
                this.world.stat("net.short_write");
            }
            n -= d;
        }
        let lat = if this.cfg.latency_ms > 0 { this.world.draw(this.cfg.latency_ms + 1) } else { 0 };
        let mut p = this.pipe.lock().unwrap();
        let mut at = now + Duration::from_millis(u64::from(lat));
        if let Some(last) = p.last_at {
            if at < last {
                at = last;
            }
        }
        p.last_at = Some(at);
        p.q.push_back(Chunk { at, data: buf[..n].to_vec(), off: 0 });
        p.buffered += n;
        p.total_written += n as u64;
        this.world.sig(0x3417_0000_0000 ^ n as u64 ^ (u64::from(lat) << 32));
        if nettrace() {
            this.world.ev(format!("net {} write {} of {} lat {} (buffered now {})", this.tag, n, buf.len(), lat, p.buffered));
        }
        if let Some(w) = p.rd_waker.take() {
            w.wake();
        }
        Poll::Ready(Ok(n))
    }

    /// Like a TCP socket, the simulated one takes vectored writes (and may accept any prefix of them).
    fn poll_write_vectored(self: Pin<&mut Self>, cx: &mut Context<'_>, bufs: &[io::IoSlice<'_>]) -> Poll<io::Result<usize>> {
        let mut all = Vec::with_capacity(bufs.iter().map(|b| b.len()).sum());
        for b in bufs {
            all.extend_from_slice(b);
        }
        self.world.stat("net.vectored_write");
        self.poll_write(cx, &all)
    }

    fn is_write_vectored(&self) -> bool {
        true
    }

    fn poll_flush(self: Pin<&mut Self>, _cx: &mut Context<'_>) -> Poll<io::Result<()>> {
        let p = self.pipe.lock().unwrap();
        if p.write_failed {
            return Poll::Ready(Err(io::Error::new(io::ErrorKind::BrokenPipe, "sim: broken pipe")));
        }
        Poll::Ready(Ok(()))
    }

    fn poll_shutdown(self: Pin<&mut Self>, _cx: &mut Context<'_>) -> Poll<io::Result<()>> {
        let mut p = self.pipe.lock().unwrap();
        p.wr_closed = true;
        if let Some(w) = p.rd_waker.take() {
            w.wake();
        }
        Poll::Ready(Ok(()))
    }
}

impl Drop for WriteEnd {
    fn drop(&mut self) {
        let mut p = self.pipe.lock().unwrap();
        p.wr_closed = true;
        if let Some(w) = p.rd_waker.take() {
            w.wake();
        }
    }
}

/// Both directions of one connection as seen by the two parties.
pub struct Duplex {
    pub client_read: ReadEnd,
    pub client_write: WriteEnd,
    pub server_read: ReadEnd,
    pub server_write: WriteEnd,
    /// client -> server direction
    pub c2s: PipeCtl,
    /// server -> client direction
    pub s2c: PipeCtl,
}

/// `client` describes the client's ends (the system under test), `server` the peer's.
pub fn duplex(world: &Arc<World>, cap: usize, client: &EndCfg, server: &EndCfg) -> Duplex {
    let (cw, sr, c2s) = pipe(world, cap, client.clone(), server.clone(), "c2s");
    let (sw, cr, s2c) = pipe(world, cap, server.clone(), client.clone(), "s2c");
    Duplex { client_read: cr, client_write: cw, server_read: sr, server_write: sw, c2s, s2c }
}
