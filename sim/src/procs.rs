//! Instrumented `Process` implementations: they record what their handler was
//! given, may stall (tape-decided) and fail on a poison message (the "crash").

use crate::conv::{pid_val, ref_val, to_val};
use crate::core::World;
use crate::wire::Val;
use edp_node::{Message, Process};
use std::sync::{Arc, Mutex};
use std::time::Duration;

#[derive(Clone, Debug, PartialEq, Eq)]
pub enum Got {
    Regular(Val),
    Exit { from: Val, reason: Val },
    MonitorExit { monitored: Val, reference: Val, reason: Val },
    Other(String),
    Terminate,
    Failed,
}

#[derive(Clone, Debug)]
pub struct RecEvent {
    pub seq: u64,
    pub t_ms: u64,
    pub proc_idx: usize,
    pub got: Got,
}

#[derive(Default)]
pub struct History {
    pub events: Vec<RecEvent>,
    pub seq: u64,
}

pub type Hist = Arc<Mutex<History>>;

pub fn next_seq(h: &Hist) -> u64 {
    let mut g = h.lock().unwrap();
    g.seq += 1;
    g.seq
}

pub fn poison() -> Val {
    Val::atom("$poison")
}

pub struct Recorder {
    pub idx: usize,
    pub hist: Hist,
    pub world: Arc<World>,
    /// out of 16: chance the handler stalls before returning
    pub stall_16: u32,
    pub max_stall_ms: u32,
}

impl Recorder {
    fn record(&self, got: Got) {
        let mut g = self.hist.lock().unwrap();
        g.seq += 1;
        let seq = g.seq;
        g.events.push(RecEvent { seq, t_ms: World::now_ms(), proc_idx: self.idx, got });
    }

    async fn maybe_stall(&self) {
        if self.stall_16 >= 16 {
            // a handler that always takes a little time
            tokio::time::sleep(Duration::from_millis(u64::from(self.max_stall_ms.max(1)))).await;
            return;
        }
        if self.stall_16 > 0 && self.world.chance(self.stall_16, 16) {
            let d = self.world.draw(self.max_stall_ms + 1);
            self.world.stat("proc.handler_stall");
            if d == 0 {
                tokio::task::yield_now().await;
            } else {
                tokio::time::sleep(Duration::from_millis(u64::from(d))).await;
            }
        }
    }
}

pub fn summarize(msg: &Message) -> Got {
    match msg {
        Message::Regular { body, .. } => Got::Regular(to_val(body)),
        Message::Exit { from, reason } => Got::Exit { from: pid_val(from), reason: to_val(reason) },
        Message::MonitorExit { monitored, reference, reason } => Got::MonitorExit { monitored: pid_val(monitored), reference: ref_val(reference), reason: to_val(reason) },
        other => Got::Other(format!("{:?}", other).chars().take(80).collect()),
    }
}

impl Process for Recorder {
    async fn handle_message(&mut self, msg: Message) -> edp_node::Result<()> {
        let got = summarize(&msg);
        let is_poison = matches!(&got, Got::Regular(v) if *v == poison());
        self.world.sig(0x9a0c ^ (self.idx as u64) << 16);
        if is_poison {
            self.record(Got::Failed);
            self.maybe_stall().await;
            return Err(edp_node::Error::InvalidMessage("poison".to_string()));
        }
        self.record(got);
        self.maybe_stall().await;
        Ok(())
    }

    async fn terminate(&mut self) {
        self.record(Got::Terminate);
        self.maybe_stall().await;
    }
}
