//! Structural mapping between the library's `OwnedTerm` and the simulator's
//! `Val`. It never goes through the library's encoder or decoder.

use crate::wire::Val;
use erltf::OwnedTerm;
use erltf::types::{Atom, BigInt, ExternalPid, ExternalPort, ExternalReference, Sign};
use std::collections::BTreeMap;

pub fn to_val(t: &OwnedTerm) -> Val {
    match t {
        OwnedTerm::Atom(a) => Val::Atom(a.name.to_string()),
        OwnedTerm::Integer(i) => Val::int(i128::from(*i)),
        OwnedTerm::BigInt(b) => {
            let mut mag = b.digits.clone();
            while mag.last() == Some(&0) {
                mag.pop();
            }
            Val::Int(b.sign.is_negative() && !mag.is_empty(), mag)
        }
        OwnedTerm::Float(f) => Val::Float(f.to_bits()),
        OwnedTerm::Binary(b) => Val::Bin(b.clone()),
        OwnedTerm::BitBinary { bytes, bits } => Val::BitBin(bytes.clone(), *bits),
        OwnedTerm::String(s) => Val::list(s.bytes().map(|b| Val::int(i128::from(b))).collect()),
        OwnedTerm::Nil => Val::Nil,
        OwnedTerm::List(v) => Val::list(v.iter().map(to_val).collect()),
        OwnedTerm::ImproperList { elements, tail } => {
            if elements.is_empty() {
                to_val(tail)
            } else {
                Val::List(elements.iter().map(to_val).collect(), Box::new(to_val(tail)))
            }
        }
        OwnedTerm::Tuple(v) => Val::Tuple(v.iter().map(to_val).collect()),
        OwnedTerm::Map(m) => Val::map(m.iter().map(|(k, v)| (to_val(k), to_val(v))).collect()),
        OwnedTerm::Pid(p) => local_wrap(p.local_ext_bytes.as_deref(), pid_val(p)),
        OwnedTerm::Port(p) => local_wrap(p.local_ext_bytes.as_deref(), Val::Port { node: p.node.name.to_string(), id: p.id, creation: p.creation }),
        OwnedTerm::Reference(r) => local_wrap(r.local_ext_bytes.as_deref(), ref_val(r)),
        OwnedTerm::ExternalFun(f) => Val::Export(f.module.name.to_string(), f.function.name.to_string(), f.arity),
        OwnedTerm::InternalFun(_) => Val::atom("$internal_fun"),
    }
}

/// An identifier that carries node-local bytes denotes the node-local form: its opaque hash
/// (first 8 bytes) plus the logical fields.
fn local_wrap(bytes: Option<&[u8]>, inner: Val) -> Val {
    match bytes {
        Some(b) if b.len() >= 8 => Val::Local(b[..8].to_vec(), Box::new(inner)),
        _ => inner,
    }
}

pub fn pid_val(p: &ExternalPid) -> Val {
    Val::Pid { node: p.node.name.to_string(), id: p.id, serial: p.serial, creation: p.creation }
}

pub fn ref_val(r: &ExternalReference) -> Val {
    Val::Ref { node: r.node.name.to_string(), creation: r.creation, ids: r.ids.clone() }
}

pub fn from_val(v: &Val) -> OwnedTerm {
    match v {
        Val::Int(neg, mag) => match v.as_i64() {
            Some(i) => OwnedTerm::Integer(i),
            None => OwnedTerm::BigInt(BigInt::new(if *neg { Sign::Negative } else { Sign::Positive }, mag.clone())),
        },
        Val::Float(b) => OwnedTerm::Float(f64::from_bits(*b)),
        Val::Atom(s) => OwnedTerm::Atom(Atom::new(s)),
        Val::Bin(b) => OwnedTerm::Binary(b.clone()),
        Val::BitBin(b, bits) => OwnedTerm::BitBinary { bytes: b.clone(), bits: *bits },
        Val::Tuple(t) => OwnedTerm::Tuple(t.iter().map(from_val).collect()),
        Val::Nil => OwnedTerm::Nil,
        Val::List(els, tail) => {
            if **tail == Val::Nil {
                OwnedTerm::List(els.iter().map(from_val).collect())
            } else {
                OwnedTerm::ImproperList { elements: els.iter().map(from_val).collect(), tail: Box::new(from_val(tail)) }
            }
        }
        Val::Map(kv) => {
            let mut m = BTreeMap::new();
            for (k, x) in kv {
                m.insert(from_val(k), from_val(x));
            }
            OwnedTerm::Map(m)
        }
        Val::Pid { node, id, serial, creation } => OwnedTerm::Pid(ExternalPid::new(Atom::new(node), *id, *serial, *creation)),
        Val::Port { node, id, creation } => OwnedTerm::Port(ExternalPort::new(Atom::new(node), *id, *creation)),
        Val::Ref { node, creation, ids } => OwnedTerm::Reference(ExternalReference::new(Atom::new(node), *creation, ids.clone())),
        Val::Export(m, f, a) => OwnedTerm::ExternalFun(erltf::types::ExternalFun::new(Atom::new(m), Atom::new(f), *a)),
        Val::Local(hash, inner) => {
            // node-local bytes as a peer would have sent them: hash + the identifier's encoding
            let mut bytes = hash.clone();
            crate::wire::enc_term(&mut bytes, inner, None);
            match &**inner {
                Val::Pid { node, id, serial, creation } => OwnedTerm::Pid(ExternalPid::with_local_ext_bytes(Atom::new(node), *id, *serial, *creation, bytes)),
                Val::Port { node, id, creation } => OwnedTerm::Port(ExternalPort::with_local_ext_bytes(Atom::new(node), *id, *creation, bytes)),
                Val::Ref { node, creation, ids } => OwnedTerm::Reference(ExternalReference::with_local_ext_bytes(Atom::new(node), *creation, ids.clone(), bytes)),
                other => from_val(other),
            }
        }
    }
}

pub fn to_pid(v: &Val) -> Option<ExternalPid> {
    match v {
        Val::Pid { node, id, serial, creation } => Some(ExternalPid::new(Atom::new(node), *id, *serial, *creation)),
        Val::Local(..) => match from_val(v) {
            OwnedTerm::Pid(p) => Some(p),
            _ => None,
        },
        _ => None,
    }
}

pub fn to_ref(v: &Val) -> Option<ExternalReference> {
    match v {
        Val::Ref { node, creation, ids } => Some(ExternalReference::new(Atom::new(node), *creation, ids.clone())),
        Val::Local(..) => match from_val(v) {
            OwnedTerm::Reference(r) => Some(r),
            _ => None,
        },
        _ => None,
    }
}
