//! Simulator core: PRNG, schedule tape, per-run world (implements the seam
//! trait the hooks in /repo call into), event log, counters.

use edp_client::verif::{ConnectFuture, Sim, Yield};
use std::collections::{BTreeMap, HashMap};
use std::io;
use std::sync::{Arc, Mutex};

// ---------------------------------------------------------------------------
// PRNG (splitmix64). One integer decides everything.
// ---------------------------------------------------------------------------

#[derive(Clone, Debug)]
pub struct Rng(pub u64);

pub fn mix(a: u64, b: u64) -> u64 {
    let mut z = a ^ b.wrapping_mul(0x9e37_79b9_7f4a_7c15).rotate_left(17);
    z = z.wrapping_add(0x9e37_79b9_7f4a_7c15);
    z = (z ^ (z >> 30)).wrapping_mul(0xbf58_476d_1ce4_e5b9);
    z = (z ^ (z >> 27)).wrapping_mul(0x94d0_49bb_1331_11eb);
    z ^ (z >> 31)
}

pub fn hash_str(s: &str) -> u64 {
    let mut h = 0xcbf2_9ce4_8422_2325u64;
    for b in s.as_bytes() {
        h = (h ^ u64::from(*b)).wrapping_mul(0x0000_0100_0000_01b3);
    }
    h
}

impl Rng {
    pub fn new(seed: u64) -> Self {
        Rng(mix(seed, 0x5eed))
    }
    pub fn next_u64(&mut self) -> u64 {
        self.0 = self.0.wrapping_add(0x9e37_79b9_7f4a_7c15);
        let mut z = self.0;
        z = (z ^ (z >> 30)).wrapping_mul(0xbf58_476d_1ce4_e5b9);
        z = (z ^ (z >> 27)).wrapping_mul(0x94d0_49bb_1331_11eb);
        z ^ (z >> 31)
    }
    pub fn next_u32(&mut self) -> u32 {
        (self.next_u64() >> 32) as u32
    }
    /// Uniform in 0..n (n == 0 gives 0).
    pub fn below(&mut self, n: u64) -> u64 {
        if n == 0 { 0 } else { self.next_u64() % n }
    }
    pub fn range(&mut self, lo: u64, hi_incl: u64) -> u64 {
        lo + self.below(hi_incl - lo + 1)
    }
    pub fn chance(&mut self, num: u64, den: u64) -> bool {
        self.below(den) < num
    }
    pub fn pick<'a, T>(&mut self, xs: &'a [T]) -> &'a T {
        &xs[self.below(xs.len() as u64) as usize]
    }
    pub fn bytes(&mut self, n: usize) -> Vec<u8> {
        (0..n).map(|_| self.next_u64() as u8).collect()
    }
    pub fn fork(&mut self) -> Rng {
        Rng::new(self.next_u64())
    }
}

// ---------------------------------------------------------------------------
// Schedule tape: every run-time decision consumes one entry.
// ---------------------------------------------------------------------------

#[derive(Clone, Debug)]
pub struct Tape {
    rng: Option<Rng>,
    pub entries: Vec<u32>,
    pub pos: usize,
}

impl Tape {
    pub fn generate(rng: Rng) -> Self {
        Tape { rng: Some(rng), entries: Vec::new(), pos: 0 }
    }
    pub fn replay(entries: Vec<u32>) -> Self {
        Tape { rng: None, entries, pos: 0 }
    }
    /// Next decision in 0..n. 0 is by convention the simplest choice; an
    /// exhausted replay tape yields 0.
    pub fn draw(&mut self, n: u32) -> u32 {
        if n <= 1 {
            return 0;
        }
        let raw = match &mut self.rng {
            Some(rng) => {
                let v = rng.next_u32();
                self.entries.push(v);
                v
            }
            None => self.entries.get(self.pos).copied().unwrap_or(0),
        };
        self.pos += 1;
        raw % n
    }
}

// ---------------------------------------------------------------------------
// Event log: rolling digest plus (optionally) the text of every event.
// ---------------------------------------------------------------------------

#[derive(Debug)]
pub struct EventLog {
    pub digest: u64,
    pub count: u64,
    pub keep: bool,
    pub lines: Vec<String>,
}

impl EventLog {
    fn new(keep: bool) -> Self {
        EventLog { digest: 0x1234_5678_9abc_def0, count: 0, keep, lines: Vec::new() }
    }
    pub fn push(&mut self, s: &str) {
        self.digest = mix(self.digest, hash_str(s));
        self.count += 1;
        if self.keep {
            self.lines.push(s.to_string());
        }
    }
}

// ---------------------------------------------------------------------------
// World
// ---------------------------------------------------------------------------

pub type Listener = Box<dyn FnMut(&Arc<World>, &str) -> ConnectFuture + Send>;

#[derive(Clone, Debug, Default)]
pub struct YieldCfg {
    /// Probability numerator out of 16 of not continuing at an active site.
    pub intensity: u32,
    /// Bitmask over `hash(site) % 64` of active sites (a random subset per run).
    pub site_mask: u64,
    pub max_sleep_ms: u32,
}

pub struct WorldInner {
    pub tape: Tape,
    pub log: EventLog,
    pub stats: BTreeMap<String, u64>,
    pub listeners: HashMap<String, Listener>,
    pub yield_cfg: YieldCfg,
    pub challenges: Vec<u32>,
    pub challenges_issued: Vec<u32>,
    pub salt: u64,
    pub sched_sig: u64,
    pub violations: Vec<(String, String)>,
}

pub struct World {
    pub inner: Mutex<WorldInner>,
}

impl World {
    pub fn new(tape: Tape, keep_events: bool, salt: u64) -> Arc<World> {
        Arc::new(World {
            inner: Mutex::new(WorldInner {
                tape,
                log: EventLog::new(keep_events),
                stats: BTreeMap::new(),
                listeners: HashMap::new(),
                yield_cfg: YieldCfg::default(),
                challenges: Vec::new(),
                challenges_issued: Vec::new(),
                salt,
                sched_sig: 0,
                violations: Vec::new(),
            }),
        })
    }

    pub fn draw(&self, n: u32) -> u32 {
        self.inner.lock().unwrap().tape.draw(n)
    }

    /// true with probability num/den; tape value 0 means false.
    pub fn chance(&self, num: u32, den: u32) -> bool {
        if num == 0 {
            return false;
        }
        let d = self.draw(den);
        d >= den - num.min(den)
    }

    pub fn ev(&self, s: impl AsRef<str>) {
        self.inner.lock().unwrap().log.push(s.as_ref());
    }

    pub fn stat(&self, key: &str) {
        self.stat_add(key, 1);
    }

    pub fn stat_add(&self, key: &str, n: u64) {
        let mut g = self.inner.lock().unwrap();
        *g.stats.entry(key.to_string()).or_insert(0) += n;
    }

    /// Contribution to the schedule signature (which task did what, in order).
    pub fn sig(&self, x: u64) {
        let mut g = self.inner.lock().unwrap();
        g.sched_sig = mix(g.sched_sig, x);
    }

    pub fn violation(&self, class: &str, detail: impl Into<String>) {
        let detail = detail.into();
        let mut g = self.inner.lock().unwrap();
        g.log.push(&format!("VIOLATION {} {}", class, detail));
        g.violations.push((class.to_string(), detail));
    }

    pub fn listen(&self, addr: &str, l: Listener) {
        self.inner.lock().unwrap().listeners.insert(addr.to_string(), l);
    }

    pub fn set_yield_cfg(&self, cfg: YieldCfg) {
        self.inner.lock().unwrap().yield_cfg = cfg;
    }

    pub fn push_challenge(&self, c: u32) {
        self.inner.lock().unwrap().challenges.push(c);
    }

    pub fn challenges_issued(&self) -> Vec<u32> {
        self.inner.lock().unwrap().challenges_issued.clone()
    }

    pub fn now_ms() -> u64 {
        // Simulated time: the paused tokio clock, relative to runtime start.
        START.with(|s| {
            let s = s.get();
            match s {
                Some(t0) => tokio::time::Instant::now().duration_since(t0).as_millis() as u64,
                None => 0,
            }
        })
    }
}

thread_local! {
    pub static START: std::cell::Cell<Option<tokio::time::Instant>> = const { std::cell::Cell::new(None) };
    static CURRENT: std::cell::RefCell<Option<Arc<World>>> = const { std::cell::RefCell::new(None) };
}

pub fn current_world() -> Option<Arc<World>> {
    CURRENT.with(|c| c.borrow().clone())
}

struct SimHandle(Arc<World>);

impl Sim for SimHandle {
    fn connect(&self, addr: &str) -> ConnectFuture {
        let world = self.0.clone();
        // Take the listener out while calling it so that it may call back into the world.
        let l = world.inner.lock().unwrap().listeners.remove(addr);
        match l {
            Some(mut l) => {
                let fut = l(&world, addr);
                world.inner.lock().unwrap().listeners.entry(addr.to_string()).or_insert(l);
                fut
            }
            None => {
                world.ev(format!("connect {} refused (no listener)", addr));
                world.stat("net.connect_refused");
                Box::pin(async {
                    Err(io::Error::new(io::ErrorKind::ConnectionRefused, "sim: connection refused"))
                })
            }
        }
    }

    fn at_yield_point(&self, site: &'static str) -> Yield {
        let mut g = self.0.inner.lock().unwrap();
        let cfg = g.yield_cfg.clone();
        let bit = hash_str(site) % 64;
        if cfg.intensity == 0 || cfg.site_mask & (1u64 << bit) == 0 {
            return Yield::Continue;
        }
        let d = g.tape.draw(16);
        if d < 16 - cfg.intensity.min(16) {
            return Yield::Continue;
        }
        *g.stats.entry(format!("yield.{}", site)).or_insert(0) += 1;
        g.sched_sig = mix(g.sched_sig, hash_str(site));
        let k = g.tape.draw(cfg.max_sleep_ms + 1);
        if k == 0 { Yield::YieldNow } else { Yield::SleepMs(u64::from(k)) }
    }

    fn challenge(&self) -> Option<u32> {
        let mut g = self.0.inner.lock().unwrap();
        let c = if g.challenges.is_empty() {
            // Derived from the salt and the number issued so far: seeded, never the wall clock.
            mix(g.salt, g.challenges_issued.len() as u64) as u32
        } else {
            g.challenges.remove(0)
        };
        g.challenges_issued.push(c);
        Some(c)
    }

    fn hash_salt(&self) -> u64 {
        self.0.inner.lock().unwrap().salt
    }
}

/// Result of executing one run body under the simulator.
pub struct Executed<T> {
    pub value: Option<T>,
    pub timed_out: bool,
    pub panicked: Vec<String>,
    pub sim_ms: u64,
}

thread_local! {
    /// Wall-clock deadline for the run on this thread; set only by the minimiser (never while checking).
    pub static WALL_LIMIT: std::cell::Cell<Option<std::time::Instant>> = const { std::cell::Cell::new(None) };
    pub static PANICS: std::cell::RefCell<Vec<String>> = const { std::cell::RefCell::new(Vec::new()) };
}

pub fn install_panic_hook() {
    std::panic::set_hook(Box::new(|info| {
        let loc = info
            .location()
            .map(|l| format!("{}:{}", l.file(), l.line()))
            .unwrap_or_else(|| "?".to_string());
        let msg = if let Some(s) = info.payload().downcast_ref::<&str>() {
            (*s).to_string()
        } else if let Some(s) = info.payload().downcast_ref::<String>() {
            s.clone()
        } else {
            "<non-string panic>".to_string()
        };
        PANICS.with(|p| p.borrow_mut().push(format!("{} @ {}", msg, loc)));
    }));
}

/// Runs `body` to completion on a fresh single-threaded runtime whose clock is
/// paused (discrete-event time), with `world` installed as the simulator for
/// this thread. `horizon_ms` bounds simulated time: if the body has not finished
/// by then it is reported as timed out (stuck).
pub fn execute<T, F, Fut>(world: &Arc<World>, horizon_ms: u64, body: F) -> Executed<T>
where
    F: FnOnce(Arc<World>) -> Fut,
    Fut: std::future::Future<Output = T>,
{
    PANICS.with(|p| p.borrow_mut().clear());
    let salt = world.inner.lock().unwrap().salt;
    edp_client::verif::install(Some(Arc::new(SimHandle(world.clone()))));
    erltf::verif::set_atom_order_salt(salt | 1);
    CURRENT.with(|c| *c.borrow_mut() = Some(world.clone()));

    let w = world.clone();
    let result = std::panic::catch_unwind(std::panic::AssertUnwindSafe(move || {
        // tokio's own coin flips (branch order of `select!` without `biased`) come from the run's salt
        let rt = tokio::runtime::Builder::new_current_thread()
            .enable_time()
            .start_paused(true)
            .rng_seed(tokio::runtime::RngSeed::from_bytes(&salt.to_le_bytes()))
            .build()
            .expect("runtime");
        let out = rt.block_on(async move {
            START.with(|s| s.set(Some(tokio::time::Instant::now())));
            let wall = WALL_LIMIT.with(|c| c.get());
            let r = match wall {
                None => tokio::time::timeout(std::time::Duration::from_millis(horizon_ms), body(w)).await.ok(),
                // minimiser only: a candidate that costs far more wall time than the original is abandoned
                Some(deadline) => {
                    tokio::select! {
                        biased;
                        r = tokio::time::timeout(std::time::Duration::from_millis(horizon_ms), body(w)) => r.ok(),
                        _ = async {
                            loop {
                                tokio::time::sleep(std::time::Duration::from_millis(50)).await;
                                if std::time::Instant::now() > deadline {
                                    break;
                                }
                            }
                        } => None,
                    }
                }
            };
            let ms = World::now_ms();
            (r, ms)
        });
        drop(rt);
        out
    }));

    edp_client::verif::install(None);
    erltf::verif::set_atom_order_salt(0);
    CURRENT.with(|c| *c.borrow_mut() = None);
    START.with(|s| s.set(None));
    // Break reference cycles (listeners capture the world).
    world.inner.lock().unwrap().listeners.clear();

    let panicked = PANICS.with(|p| std::mem::take(&mut *p.borrow_mut()));
    match result {
        Ok((value, ms)) => Executed { timed_out: value.is_none(), value, panicked, sim_ms: ms },
        Err(_) => Executed { value: None, timed_out: false, panicked, sim_ms: 0 },
    }
}
