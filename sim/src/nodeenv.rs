//! Helpers shared by the Node-level scenarios: a started `Node` registered with
//! the EPMD stub, and a peer that performs the conforming handshake and then
//! hands the connection to scenario code.

use crate::core::World;
use crate::peer::{HsParams, HsSeen, NetCfg, ServerConn, accept_handshake, install_epmd, install_peer};
use edp_node::Node;
use std::future::Future;
use std::pin::Pin;
use std::sync::Arc;

pub const SUT_NAME: &str = "sut@suthost";
pub const PEER_NAME: &str = "peer@peerhost";
pub const PEER_ADDR: &str = "peerhost:5555";
pub const COOKIE: &str = "simcookie";
/// A second remote node some runs connect to as well (EPMD stub: alive "other", port 5556).
pub const OTHER_NAME: &str = "other@otherhost";
pub const OTHER_ADDR: &str = "otherhost:5556";

pub type PeerFuture = Pin<Box<dyn Future<Output = ()> + Send>>;

/// EPMD stub + started node. `creation` is what EPMD hands out.
pub async fn start_node(w: &Arc<World>, creation: u32) -> Result<Node, String> {
    install_epmd(w, creation, "peer", 5555, true);
    let mut node = Node::new(SUT_NAME, COOKIE);
    node.start(0).await.map_err(|e| format!("Node::start failed: {}", e))?;
    Ok(node)
}

/// Listener for the peer node: conforming handshake, then `after(world, conn, seen)`.
pub fn install_conforming_peer<F>(w: &Arc<World>, net: NetCfg, peer_flags: u64, after: F)
where
    F: Fn(Arc<World>, ServerConn, HsSeen) -> PeerFuture + Send + Sync + 'static,
{
    install_conforming_peer_at(w, PEER_ADDR, PEER_NAME, net, peer_flags, after)
}

/// The same for a node of another name at another address.
pub fn install_conforming_peer_at<F>(w: &Arc<World>, addr: &str, name: &'static str, net: NetCfg, peer_flags: u64, after: F)
where
    F: Fn(Arc<World>, ServerConn, HsSeen) -> PeerFuture + Send + Sync + 'static,
{
    let after = Arc::new(after);
    install_peer(
        w,
        addr,
        net,
        |_| 0,
        move |w: &Arc<World>, mut conn: ServerConn| {
            let after = after.clone();
            let w = w.clone();
            let params = HsParams {
                cookie: COOKIE.to_string(),
                peer_name: name.to_string(),
                peer_flags,
                peer_challenge: 0x1234_5678 ^ conn.conn_index as u32,
                peer_creation: 99,
            };
            tokio::spawn(async move {
                match accept_handshake(&mut conn, &params).await {
                    Ok(seen) => after(w, conn, seen).await,
                    Err(e) => w.ev(format!("peer: handshake failed: {}", e)),
                }
            });
        },
    );
}
