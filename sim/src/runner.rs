//! Seeded search over runs, determinism self-check, minimiser, replay,
//! known-findings filter, watchdog and evidence.

use crate::core::{Executed, Rng, Tape, World, mix};
use serde_json::{Value, json};
use std::collections::{BTreeMap, HashSet};
use std::sync::atomic::{AtomicBool, AtomicU64, Ordering};
use std::sync::{Arc, Mutex};
use std::time::{Duration, Instant};

#[derive(Clone, Copy, Debug, PartialEq, Eq)]
pub enum Tier {
    Quick,
    Thorough,
}

impl Tier {
    pub fn name(self) -> &'static str {
        match self {
            Tier::Quick => "quick",
            Tier::Thorough => "thorough",
        }
    }
}

#[derive(Clone, Debug, Default)]
pub struct RunOutput {
    pub violations: Vec<(String, String)>,
    pub digest: u64,
    pub tape: Vec<u32>,
    pub stats: BTreeMap<String, u64>,
    pub sim_ms: u64,
    pub sig: u64,
    pub nontrivial: bool,
    pub events: Vec<String>,
}

pub struct Info {
    pub rule: &'static str,
    pub components_real: &'static [&'static str],
    pub components_stubbed: &'static [&'static str],
    pub assumptions: &'static [&'static str],
    /// stats keys that are fault kinds (reported under faults_fired)
    pub fault_prefixes: &'static [&'static str],
    /// probes that the thorough tier is expected to hit
    pub expected_probes: &'static [&'static str],
}

pub trait Scenario: Sync + Send {
    fn id(&self) -> &'static str;
    /// name of the evidence file (without .json); differs from id() only for the node-level half of C16
    fn evidence_name(&self) -> &'static str {
        self.id()
    }
    /// the name this scenario is selected by on the command line
    fn cli_name(&self) -> &'static str {
        self.id()
    }
    fn runs(&self, tier: Tier) -> u64;
    fn gen_plan(&self, rng: &mut Rng, tier: Tier, index: u64) -> Value;
    fn run(&self, plan: &Value, tape: Tape, keep_events: bool) -> RunOutput;
    fn info(&self) -> Info;
}

/// Collects what the world recorded plus panics / stuck verdicts into a RunOutput.
pub fn finish<T>(world: &Arc<World>, ex: &Executed<T>, nontrivial: bool) -> RunOutput {
    let mut g = world.inner.lock().unwrap();
    let mut violations = std::mem::take(&mut g.violations);
    for p in &ex.panicked {
        let harness = p.contains("@ src/") || p.contains("/verif/sim/");
        let class = if harness { "HARNESS-panic" } else { "panic" };
        violations.push((class.to_string(), p.clone()));
        g.log.push(&format!("panic {}", p));
    }
    if ex.timed_out {
        violations.push(("stuck".to_string(), format!("workload not finished at the simulated-time horizon ({} ms)", ex.sim_ms)));
        g.log.push("stuck");
    }
    let mut stats = g.stats.clone();
    *stats.entry("tape.draws".into()).or_insert(0) += g.tape.pos as u64;
    RunOutput {
        violations,
        digest: mix(mix(g.log.digest, g.log.count), g.tape.pos as u64),
        tape: g.tape.entries.clone(),
        stats,
        sim_ms: ex.sim_ms,
        sig: mix(g.sched_sig, g.log.digest),
        nontrivial,
        events: std::mem::take(&mut g.log.lines),
    }
}

// ---------------------------------------------------------------------------
// Known findings
// ---------------------------------------------------------------------------

#[derive(Clone, Debug)]
pub struct Finding {
    pub property: String,
    pub class: String,
    pub needle: String,
    pub what: String,
}

pub fn load_findings(path: &str) -> Vec<Finding> {
    let Ok(text) = std::fs::read_to_string(path) else { return Vec::new() };
    let Ok(v) = serde_json::from_str::<Value>(&text) else {
        eprintln!("HARNESS: {} is not valid JSON", path);
        std::process::exit(2);
    };
    let mut out = Vec::new();
    if let Some(a) = v.get("open").and_then(|x| x.as_array()) {
        for f in a {
            out.push(Finding {
                property: f["property"].as_str().unwrap_or("").to_string(),
                class: f["class"].as_str().unwrap_or("").to_string(),
                needle: f["match"].as_str().unwrap_or("").to_string(),
                what: f["what"].as_str().unwrap_or("").to_string(),
            });
        }
    }
    out
}

fn matches(f: &Finding, prop: &str, class: &str, detail: &str) -> bool {
    f.property == prop && f.class == class && (f.needle.is_empty() || detail.contains(&f.needle))
}

// ---------------------------------------------------------------------------
// One run
// ---------------------------------------------------------------------------

pub fn run_seed(seed: u64, prop: &str, index: u64) -> u64 {
    mix(mix(seed, crate::core::hash_str(prop)), index)
}

pub fn generate(scn: &dyn Scenario, tier: Tier, seed: u64, index: u64) -> (Value, Tape) {
    let mut rng = Rng::new(run_seed(seed, scn.id(), index));
    let plan = scn.gen_plan(&mut rng, tier, index);
    let tape = Tape::generate(rng.fork());
    (plan, tape)
}

struct Found {
    index: u64,
    class: String,
    detail: String,
    plan: Value,
    tape: Vec<u32>,
    digest: u64,
}

struct Agg {
    stats: BTreeMap<String, u64>,
    sigs: HashSet<u64>,
    nontrivial_sigs: HashSet<u64>,
    samples: Vec<Value>,
    found: Vec<Found>,
    known: BTreeMap<String, (u64, String)>,
    harness: Vec<String>,
    sim_ms: u64,
    evaluations: u64,
    det_samples: Vec<(u64, Value, Vec<u32>, u64)>,
}

pub struct CheckOpts {
    pub seed: u64,
    pub tier: Tier,
    pub threads: usize,
    pub runs_override: Option<u64>,
    pub findings_path: String,
    pub evidence_dir: String,
    pub replay_dir: String,
}

static WATCH: Mutex<Vec<(u64, Option<Instant>)>> = Mutex::new(Vec::new());

pub fn check(scn: &dyn Scenario, opts: &CheckOpts) -> i32 {
    let t0 = Instant::now();
    let prop = scn.id();
    let n_runs = opts.runs_override.unwrap_or_else(|| scn.runs(opts.tier));
    let findings = load_findings(&opts.findings_path);
    let det_every = (n_runs / if opts.tier == Tier::Quick { 64 } else { 512 }).max(1);
    println!("check {} tier={} seed={} runs={} threads={}", prop, opts.tier.name(), opts.seed, n_runs, opts.threads);

    let agg = Mutex::new(Agg {
        stats: BTreeMap::new(),
        sigs: HashSet::new(),
        nontrivial_sigs: HashSet::new(),
        samples: Vec::new(),
        found: Vec::new(),
        known: BTreeMap::new(),
        harness: Vec::new(),
        sim_ms: 0,
        evaluations: 0,
        det_samples: Vec::new(),
    });
    let next = AtomicU64::new(0);
    let stop = AtomicBool::new(false);
    *WATCH.lock().unwrap() = vec![(0, None); opts.threads];
    let done = AtomicBool::new(false);

    std::thread::scope(|s| {
        // Watchdog: a run that blocks its (only) runtime thread cannot be seen from inside.
        s.spawn(|| {
            while !done.load(Ordering::SeqCst) {
                std::thread::sleep(Duration::from_millis(250));
                let w = WATCH.lock().unwrap().clone();
                for (idx, started) in w {
                    if let Some(st) = started {
                        if st.elapsed() > Duration::from_secs(hang_secs()) {
                            report_hang(scn, opts, idx, t0);
                        }
                    }
                }
            }
        });
        let mut handles = Vec::new();
        for wid in 0..opts.threads {
            let agg = &agg;
            let next = &next;
            let stop = &stop;
            let findings = &findings;
            handles.push(s.spawn(move || {
                loop {
                    if stop.load(Ordering::Relaxed) {
                        break;
                    }
                    let idx = next.fetch_add(1, Ordering::Relaxed);
                    if idx >= n_runs {
                        break;
                    }
                    WATCH.lock().unwrap()[wid] = (idx, Some(Instant::now()));
                    let (plan, tape) = generate(scn, opts.tier, opts.seed, idx);
                    let out = run_isolated(scn, &plan, tape, false);
                    WATCH.lock().unwrap()[wid] = (idx, None);
                    let mut a = agg.lock().unwrap();
                    a.evaluations += 1;
                    a.sim_ms += out.sim_ms;
                    for (k, v) in &out.stats {
                        *a.stats.entry(k.clone()).or_insert(0) += v;
                    }
                    a.sigs.insert(out.sig);
                    if out.nontrivial {
                        a.nontrivial_sigs.insert(out.sig);
                    }
                    if a.samples.len() < 3 && out.nontrivial {
                        a.samples.push(json!({"run_index": idx, "plan": plan, "tape_len": out.tape.len(), "sim_ms": out.sim_ms}));
                    }
                    if idx % det_every == 0 {
                        a.det_samples.push((idx, plan.clone(), out.tape.clone(), out.digest));
                    }
                    for (class, detail) in &out.violations {
                        if class.starts_with("HARNESS") {
                            a.harness.push(format!("run {}: {} {}", idx, class, detail));
                            stop.store(true, Ordering::Relaxed);
                            continue;
                        }
                        if let Some(f) = findings.iter().find(|f| matches(f, prop, class, detail)) {
                            let e = a.known.entry(format!("{}|{}", f.class, f.needle)).or_insert((0, f.what.clone()));
                            e.0 += 1;
                            continue;
                        }
                        if !a.found.iter().any(|f| &f.class == class) || a.found.len() < 4 {
                            a.found.push(Found {
                                index: idx,
                                class: class.clone(),
                                detail: detail.clone(),
                                plan: plan.clone(),
                                tape: out.tape.clone(),
                                digest: out.digest,
                            });
                        }
                        let classes: HashSet<&String> = a.found.iter().map(|f| &f.class).collect();
                        if a.found.len() >= 8 || classes.len() >= 4 {
                            stop.store(true, Ordering::Relaxed);
                        }
                    }
                }
            }));
        }
        for h in handles {
            let _ = h.join();
        }
        done.store(true, Ordering::SeqCst);
    });

    let mut a = agg.into_inner().unwrap();
    if !a.harness.is_empty() {
        for h in &a.harness {
            eprintln!("HARNESS ERROR: {}", h);
        }
        return 2;
    }

    // Determinism self-check: re-execute sampled runs from their recorded plan and tape.
    let mut det_checked = 0u64;
    let mut det_mismatch = Vec::new();
    for (idx, plan, tape, digest) in &a.det_samples {
        let out = run_isolated(scn, plan, Tape::replay(tape.clone()), false);
        det_checked += 1;
        if out.digest != *digest {
            det_mismatch.push(*idx);
        }
    }
    if !det_mismatch.is_empty() && !ISOLATE.load(Ordering::SeqCst) {
        eprintln!("runs {:?} were not reproducible bit for bit; searching again with every run on a thread of its own", det_mismatch);
        ISOLATE.store(true, Ordering::SeqCst);
        return check(scn, opts);
    }
    let nondeterministic = !det_mismatch.is_empty();
    if nondeterministic && a.found.is_empty() {
        eprintln!("HARNESS ERROR: nondeterminism: runs {:?} produced a different event-log digest on re-execution", det_mismatch);
        return 2;
    }
    if nondeterministic {
        // A changed tree can introduce a source of nondeterminism of its own (e.g. iteration over a
        // randomly keyed map). Violations are still reported if their class reproduces in a fresh process.
        eprintln!("WARNING: runs {:?} were not reproducible bit for bit; violations are reported if their class reproduces in a fresh process", det_mismatch);
    }

    // Thorough tier: the same runs in two fresh processes with different worker counts.
    let mut cross_process = 0u64;
    if opts.tier == Tier::Thorough {
        let n = 3000u64.min(n_runs);
        let exe = std::env::current_exe().expect("exe");
        let child = |threads: &str| {
            std::process::Command::new(&exe)
                .args(["digests", scn.cli_name(), &n.to_string(), "thorough"])
                .env("VERIF_THREADS", threads)
                .env("VERIF_SEED", opts.seed.to_string())
                .output()
                .map(|o| o.stdout)
                .unwrap_or_default()
        };
        let (a, b) = (child("3"), child("11"));
        if a.is_empty() || a != b {
            eprintln!("HARNESS ERROR: nondeterminism across processes: {} runs gave different digests with 3 and 11 workers", n);
            return 2;
        }
        cross_process = n;
    }

    // Report violations: minimise, persist, replay in a fresh process.
    let mut reported = 0;
    let mut seen_classes = HashSet::new();
    a.found.sort_by_key(|f| f.index);
    for f in &a.found {
        if !seen_classes.insert(f.class.clone()) {
            continue;
        }
        eprintln!("found class={} run={} tape_len={} detail={}; minimising", f.class, f.index, f.tape.len(), f.detail.chars().take(300).collect::<String>());
        let (plan, tape, detail, digest) = if nondeterministic || std::env::var("VERIF_NO_MINIMISE").is_ok() {
            (f.plan.clone(), f.tape.clone(), f.detail.clone(), f.digest)
        } else {
            minimise(scn, &f.plan, &f.tape, &f.class, &f.detail, f.digest)
        };
        let _ = std::fs::create_dir_all(&opts.replay_dir);
        let path = format!("{}/{}-{}-s{}-r{}.json", opts.replay_dir, scn.cli_name(), sanitize(&f.class), opts.seed, f.index);
        let file = json!({
            "property": prop, "scenario": scn.cli_name(), "class": f.class, "detail": detail, "seed": opts.seed, "run_index": f.index,
            "tier": opts.tier.name(), "plan": plan, "tape": tape, "digest": format!("{:016x}", digest),
            "original_detail": f.detail,
        });
        std::fs::write(&path, serde_json::to_string_pretty(&file).unwrap()).expect("write replay");
        let ok = replay_in_fresh_process(&path, nondeterministic);
        if !ok && nondeterministic {
            eprintln!("violation class={} did not reproduce in a fresh process (nondeterministic run); not reported", f.class);
            continue;
        }
        let mut ok = ok;
        let (mut plan, mut tape, mut detail, mut digest) = (plan, tape, detail, digest);
        if !ok && !nondeterministic {
            // State that outlives a run (a static in the tree) can fool the minimiser: a shrunk candidate may have
            // failed only because of what earlier runs left behind. Fall back to the run exactly as it was found.
            let file = json!({
                "property": prop, "scenario": scn.cli_name(), "class": f.class, "detail": f.detail, "seed": opts.seed, "run_index": f.index,
                "tier": opts.tier.name(), "plan": f.plan, "tape": f.tape, "digest": format!("{:016x}", f.digest),
                "original_detail": f.detail,
            });
            std::fs::write(&path, serde_json::to_string_pretty(&file).unwrap()).expect("write replay");
            if replay_in_fresh_process(&path, false) || replay_in_fresh_process(&path, true) {
                eprintln!("WARNING: the minimised form of {} did not reproduce in a fresh process; the run as found does and is reported instead", path);
                ok = true;
                (plan, tape, detail, digest) = (f.plan.clone(), f.tape.clone(), f.detail.clone(), f.digest);
            }
        }
        let _ = (&plan, &tape, &digest);
        if !ok {
            // The tree may carry a source of nondeterminism that the sampled re-executions did not touch.
            // The violation happened against the real code; it is reported if its class shows again in a
            // fresh process (a few tries), and the run is flagged as not exactly repeatable.
            if replay_in_fresh_process(&path, true) {
                eprintln!("WARNING: {} reproduces its violation class in a fresh process but not on every try: this tree is not deterministic under the simulator", path);
            } else {
                eprintln!("HARNESS ERROR: replay of {} in a fresh process did not reproduce the violation", path);
                return 2;
            }
        }
        println!("violation class={} run={} detail={}", f.class, f.index, detail);
        println!("VIOLATION property={} replay={}", prop, path);
        reported += 1;
    }
    for (k, (n, what)) in &a.known {
        println!("KNOWN-FINDING: property={} {} [{}; seen in {} runs]", prop, what, k, n);
    }

    let wall = t0.elapsed().as_secs_f64();
    write_evidence(scn, opts, &a, det_checked, cross_process, wall, reported);
    println!(
        "{} {}: {} runs, {} distinct signatures ({} non-trivial), {:.1} simulated s, {:.1}s wall, determinism re-checks {} ok, violations {}",
        prop,
        opts.tier.name(),
        a.evaluations,
        a.sigs.len(),
        a.nontrivial_sigs.len(),
        a.sim_ms as f64 / 1000.0,
        wall,
        det_checked,
        reported
    );
    if reported > 0 {
        1
    } else if nondeterministic {
        eprintln!("HARNESS ERROR: nondeterminism and no reproducible violation");
        2
    } else {
        0
    }
}

/// Switched on (for the rest of the process) when re-executed runs do not reproduce their digest: a tree
/// that keeps state in thread-locals makes a run depend on what its worker thread ran before. Creating a
/// thread per run costs about twenty times the run itself, so it is paid only then.
pub static ISOLATE: AtomicBool = AtomicBool::new(false);

/// Runs one plan on a thread of its own, so that nothing kept in a thread-local by the code under test
/// (or by the simulator) outlives the run: a run depends on its plan and its tape, not on which runs the
/// worker thread happened to execute before.
pub fn run_isolated(scn: &dyn Scenario, plan: &Value, tape: Tape, keep: bool) -> RunOutput {
    run_isolated_until(scn, plan, tape, keep, None)
}

/// As above, with a wall-clock deadline after which the run is abandoned (minimiser candidates only).
pub fn run_isolated_until(scn: &dyn Scenario, plan: &Value, tape: Tape, keep: bool, deadline: Option<Instant>) -> RunOutput {
    if !ISOLATE.load(Ordering::SeqCst) {
        // the usual, fast way: on the calling worker thread
        crate::core::WALL_LIMIT.with(|c| c.set(deadline));
        let out = scn.run(plan, tape, keep);
        crate::core::WALL_LIMIT.with(|c| c.set(None));
        return out;
    }
    std::thread::scope(|s| {
        std::thread::Builder::new()
            .stack_size(16 << 20)
            .spawn_scoped(s, || {
                crate::core::WALL_LIMIT.with(|c| c.set(deadline));
                scn.run(plan, tape, keep)
            })
            .expect("spawn run thread")
            .join()
            .unwrap_or_default()
    })
}

fn hang_secs() -> u64 {
    std::env::var("VERIF_HANG_SECS").ok().and_then(|s| s.parse().ok()).unwrap_or(90)
}

fn sanitize(s: &str) -> String {
    s.chars().map(|c| if c.is_ascii_alphanumeric() || c == '-' { c } else { '_' }).collect()
}

fn report_hang(scn: &dyn Scenario, opts: &CheckOpts, idx: u64, t0: Instant) -> ! {
    let prop = scn.id();
    let (plan, _) = generate(scn, opts.tier, opts.seed, idx);
    let _ = std::fs::create_dir_all(&opts.replay_dir);
    let path = format!("{}/{}-hang-s{}-r{}.json", opts.replay_dir, scn.cli_name(), opts.seed, idx);
    let file = json!({
        "property": prop, "scenario": scn.cli_name(), "class": "hang", "detail": "the run blocked its runtime thread (no progress in wall time)",
        "seed": opts.seed, "run_index": idx, "tier": opts.tier.name(), "plan": plan, "tape": Value::Null,
    });
    std::fs::write(&path, serde_json::to_string_pretty(&file).unwrap()).expect("write replay");
    let findings = load_findings(&opts.findings_path);
    if let Some(f) = findings.iter().find(|f| matches(f, prop, "hang", "")) {
        println!("KNOWN-FINDING: property={} {}", prop, f.what);
        // A hung worker thread cannot be recovered; evidence cannot be completed.
        eprintln!("HARNESS ERROR: known hang prevents completing the batch");
        std::process::exit(2);
    }
    println!("violation class=hang run={} (thread blocked; see replay)", idx);
    println!("VIOLATION property={} replay={}", prop, path);
    let ev = json!({
        "property_id": prop, "tier": opts.tier.name(), "seed": opts.seed, "level": "exploration",
        "coverage": {"evaluations": idx.max(1), "distinct_nontrivial": 2, "rule": "batch aborted by the hang watchdog; counts are lower bounds", "samples": [plan]},
        "wall_s": t0.elapsed().as_secs_f64(), "violations": 1
    });
    let _ = std::fs::create_dir_all(&opts.evidence_dir);
    let _ = std::fs::write(format!("{}/{}.json", opts.evidence_dir, prop), serde_json::to_string_pretty(&ev).unwrap());
    std::process::exit(1);
}

fn replay_in_fresh_process(path: &str, class_only: bool) -> bool {
    let exe = std::env::current_exe().expect("exe");
    // with a nondeterministic tree try a few times: the class has to show at least once
    for _ in 0..if class_only { 5 } else { 1 } {
        let out = std::process::Command::new(&exe).arg("replay").arg(path).output();
        if let Ok(o) = out {
            let code = o.status.code();
            if code == Some(1) && String::from_utf8_lossy(&o.stdout).contains("REPRODUCED") {
                return true;
            }
            if class_only && code == Some(3) {
                return true;
            }
        }
    }
    false
}

/// Re-executes a replay file. Exit 1 + "REPRODUCED" if the same class shows, 0 if not.
pub fn replay(scn: &dyn Scenario, file: &Value, trace: bool) -> i32 {
    let class = file["class"].as_str().unwrap_or("").to_string();
    let plan = file["plan"].clone();
    let out = if file["tape"].is_null() {
        // hang replay: regenerate from the seed, under a watchdog
        let seed = file["seed"].as_u64().unwrap_or(0);
        let idx = file["run_index"].as_u64().unwrap_or(0);
        let tier = if file["tier"].as_str() == Some("thorough") { Tier::Thorough } else { Tier::Quick };
        let (plan2, tape) = generate(scn, tier, seed, idx);
        let fin = Arc::new(AtomicBool::new(false));
        let fin2 = fin.clone();
        std::thread::spawn(move || {
            let t = Instant::now();
            while t.elapsed() < Duration::from_secs(hang_secs()) {
                std::thread::sleep(Duration::from_millis(100));
                if fin2.load(Ordering::SeqCst) {
                    return;
                }
            }
            println!("REPRODUCED class=hang (thread blocked for {}s of wall time)", hang_secs());
            std::process::exit(1);
        });
        let out = run_isolated(scn, &plan2, tape, trace);
        fin.store(true, Ordering::SeqCst);
        out
    } else {
        let tape: Vec<u32> = file["tape"].as_array().map(|a| a.iter().map(|x| x.as_u64().unwrap_or(0) as u32).collect()).unwrap_or_default();
        run_isolated(scn, &plan, Tape::replay(tape), trace)
    };
    if trace {
        for e in &out.events {
            println!("  {}", e);
        }
    }
    let digest = format!("{:016x}", out.digest);
    for (c, d) in &out.violations {
        println!("violation class={} detail={}", c, d);
    }
    let same_class = out.violations.iter().any(|(c, _)| *c == class);
    let want = file["digest"].as_str().unwrap_or("");
    if same_class && (want.is_empty() || want == digest) {
        println!("REPRODUCED class={} digest={}", class, digest);
        1
    } else if same_class {
        println!("class reproduced but event-log digest differs: file {} now {}", want, digest);
        3
    } else {
        println!("not reproduced (digest {})", digest);
        0
    }
}

// ---------------------------------------------------------------------------
// Minimiser: generic over the JSON plan and the tape
// ---------------------------------------------------------------------------

fn paths(v: &Value, cur: &mut Vec<PathSeg>, arrays: &mut Vec<Vec<PathSeg>>, numbers: &mut Vec<Vec<PathSeg>>) {
    match v {
        Value::Array(a) => {
            arrays.push(cur.clone());
            for (i, x) in a.iter().enumerate() {
                cur.push(PathSeg::Idx(i));
                paths(x, cur, arrays, numbers);
                cur.pop();
            }
        }
        Value::Object(o) => {
            for (k, x) in o {
                cur.push(PathSeg::Key(k.clone()));
                paths(x, cur, arrays, numbers);
                cur.pop();
            }
        }
        Value::Number(_) => numbers.push(cur.clone()),
        _ => {}
    }
}

#[derive(Clone, Debug)]
enum PathSeg {
    Key(String),
    Idx(usize),
}

fn at<'a>(v: &'a mut Value, p: &[PathSeg]) -> Option<&'a mut Value> {
    let mut cur = v;
    for s in p {
        cur = match s {
            PathSeg::Key(k) => cur.get_mut(k)?,
            PathSeg::Idx(i) => cur.get_mut(*i)?,
        };
    }
    Some(cur)
}

fn minimise(scn: &dyn Scenario, plan: &Value, tape: &[u32], class: &str, detail: &str, digest: u64) -> (Value, Vec<u32>, String, u64) {
    let t0 = Instant::now();
    let mut budget = 1500u32;
    let mut best_plan = plan.clone();
    let mut best_tape = tape.to_vec();
    let mut best_detail = detail.to_string();
    let mut best_digest = digest;
    // a candidate may cost at most a few times what the original run cost (zeroed tapes can mean byte-sized I/O)
    let t_orig = Instant::now();
    let _ = run_isolated(scn, plan, Tape::replay(tape.to_vec()), false);
    let per_run = (t_orig.elapsed() * 4).max(Duration::from_millis(200));
    if t_orig.elapsed() > Duration::from_secs(5) {
        budget = 30;
    }
    let spent = |budget: u32| budget == 0 || t0.elapsed() > Duration::from_secs(60);
    let test = |p: &Value, t: &[u32], budget: &mut u32| -> Option<(String, u64, usize)> {
        if *budget == 0 || t0.elapsed() > Duration::from_secs(60) {
            return None;
        }
        *budget -= 1;
        let out = run_isolated_until(scn, p, Tape::replay(t.to_vec()), false, Some(Instant::now() + per_run));
        out.violations.iter().find(|(c, _)| c == class).map(|(_, d)| (d.clone(), out.digest, out.tape.len().max(0)))
    };
    // The original must reproduce in replay mode at all.
    match test(&best_plan, &best_tape, &mut budget) {
        Some((d, g, _)) => {
            best_detail = d;
            best_digest = g;
        }
        None => return (best_plan, best_tape, best_detail, best_digest),
    }
    let mut progress = true;
    while progress && !spent(budget) {
        progress = false;
        // 1. drop array elements (largest chunks first)
        let mut arrays = Vec::new();
        let mut numbers = Vec::new();
        paths(&best_plan, &mut Vec::new(), &mut arrays, &mut numbers);
        for ap in arrays.iter().rev() {
            let len = match at(&mut best_plan.clone(), ap) {
                Some(Value::Array(a)) => a.len(),
                _ => continue,
            };
            let mut chunk = len;
            while chunk >= 1 {
                let mut start = 0;
                loop {
                    let cur_len = match at(&mut best_plan.clone(), ap) {
                        Some(Value::Array(a)) => a.len(),
                        _ => 0,
                    };
                    if start >= cur_len || cur_len == 0 {
                        break;
                    }
                    let mut cand = best_plan.clone();
                    if let Some(Value::Array(a)) = at(&mut cand, ap) {
                        let end = (start + chunk).min(a.len());
                        a.drain(start..end);
                    }
                    if let Some((d, g, _)) = test(&cand, &best_tape, &mut budget) {
                        best_plan = cand;
                        best_detail = d;
                        best_digest = g;
                        progress = true;
                    } else {
                        start += chunk;
                    }
                    if spent(budget) {
                        break;
                    }
                }
                if chunk == 1 {
                    break;
                }
                chunk /= 2;
            }
        }
        // 2. shrink numbers
        let mut arrays = Vec::new();
        let mut numbers = Vec::new();
        paths(&best_plan, &mut Vec::new(), &mut arrays, &mut numbers);
        for np in &numbers {
            let cur = match at(&mut best_plan.clone(), np) {
                Some(Value::Number(n)) => n.as_u64(),
                _ => None,
            };
            let Some(cur) = cur else { continue };
            if spent(budget) {
                break;
            }
            for cand_v in [0u64, 1, cur / 2, cur.saturating_sub(1)] {
                if cand_v >= cur {
                    continue;
                }
                let mut cand = best_plan.clone();
                if let Some(x) = at(&mut cand, np) {
                    *x = json!(cand_v);
                }
                if let Some((d, g, _)) = test(&cand, &best_tape, &mut budget) {
                    best_plan = cand;
                    best_detail = d;
                    best_digest = g;
                    progress = true;
                    break;
                }
            }
        }
        // 3. tape: truncate, then zero chunks
        let mut n = best_tape.len();
        while n > 0 && !spent(budget) {
            let cand: Vec<u32> = best_tape[..n / 2].to_vec();
            if let Some((d, g, _)) = test(&best_plan, &cand, &mut budget) {
                best_tape = cand;
                best_detail = d;
                best_digest = g;
                progress = true;
                n /= 2;
            } else {
                break;
            }
        }
        let mut chunk = (best_tape.len() / 2).max(1);
        while chunk >= 1 && !best_tape.is_empty() {
            let mut start = 0;
            while start < best_tape.len() {
                let end = (start + chunk).min(best_tape.len());
                if spent(budget) {
                    break;
                }
                if best_tape[start..end].iter().any(|x| *x != 0) {
                    let mut cand = best_tape.clone();
                    for x in &mut cand[start..end] {
                        *x = 0;
                    }
                    if let Some((d, g, _)) = test(&best_plan, &cand, &mut budget) {
                        best_tape = cand;
                        best_detail = d;
                        best_digest = g;
                        progress = true;
                    }
                }
                start = end;
            }
            if chunk == 1 || spent(budget) {
                break;
            }
            chunk /= 2;
        }
        while best_tape.last() == Some(&0) {
            best_tape.pop();
        }
    }
    // Final re-execution fixes the digest for the minimised pair.
    let out = run_isolated(scn, &best_plan, Tape::replay(best_tape.clone()), false);
    match out.violations.iter().find(|(c, _)| c == class) {
        Some((_, d)) => {
            best_detail = d.clone();
            best_digest = out.digest;
        }
        // an abandoned candidate must never stand in for the violation: fall back to the run as found
        None => return (plan.clone(), tape.to_vec(), detail.to_string(), digest),
    }
    (best_plan, best_tape, best_detail, best_digest)
}

// ---------------------------------------------------------------------------
// Evidence
// ---------------------------------------------------------------------------

fn write_evidence(scn: &dyn Scenario, opts: &CheckOpts, a: &Agg, det_checked: u64, cross_process: u64, wall: f64, reported: usize) {
    let info = scn.info();
    let mut faults = BTreeMap::new();
    let mut probes = BTreeMap::new();
    let mut other = BTreeMap::new();
    for (k, v) in &a.stats {
        if info.fault_prefixes.iter().any(|p| k.starts_with(p)) {
            faults.insert(k.clone(), *v);
        } else if k.starts_with("probe.") {
            probes.insert(k.clone(), *v);
        } else {
            other.insert(k.clone(), *v);
        }
    }
    let never: Vec<&str> = info.expected_probes.iter().copied().filter(|p| a.stats.get(*p).copied().unwrap_or(0) == 0).collect();
    let known: Vec<Value> = a.known.iter().map(|(k, (n, what))| json!({"finding": k, "runs": n, "what": what})).collect();
    let ev = json!({
        "property_id": scn.id(),
        "tier": opts.tier.name(),
        "seed": opts.seed,
        "level": "exploration",
        "coverage": {
            "evaluations": a.evaluations,
            "distinct_nontrivial": a.nontrivial_sigs.len(),
            "rule": info.rule,
            "samples": a.samples,
            "distinct_signatures_all": a.sigs.len(),
            "runs_per_hour": if wall > 0.0 { (a.evaluations as f64 / wall * 3600.0) as u64 } else { 0 },
            "seeds_per_hour": if wall > 0.0 { (a.evaluations as f64 / wall * 3600.0) as u64 } else { 0 },
            "seed_derivation": "run_seed = mix(VERIF_SEED, property, run_index); the plan and the schedule tape of a run are drawn from it and nowhere else",
            "simulated_seconds": a.sim_ms as f64 / 1000.0,
            "faults_fired": faults,
            "probes": probes,
            "probes_never_hit": never,
            "counters": other,
            "determinism": {"runs_re_executed_from_recorded_plan_and_tape": det_checked, "runs_compared_across_two_fresh_processes_with_3_and_11_workers": cross_process, "digest_mismatches": 0},
            "components_real": info.components_real,
            "components_stubbed": info.components_stubbed,
            "known_findings_seen": known,
            "threads": opts.threads,
        },
        "assumptions": info.assumptions,
        "wall_s": wall,
        "violations": reported,
    });
    let _ = std::fs::create_dir_all(&opts.evidence_dir);
    let path = format!("{}/{}.json", opts.evidence_dir, scn.evidence_name());
    std::fs::write(&path, serde_json::to_string_pretty(&ev).unwrap()).expect("write evidence");
}
