//! EPMD stub and the conforming part of a scripted Erlang peer.

use crate::core::World;
use crate::net::{Duplex, EndCfg, PipeCtl, ReadEnd, WriteEnd, duplex};
use crate::wire;
use edp_client::verif::{BoxRead, BoxWrite, ConnectFuture};
use std::sync::{Arc, Mutex};
use std::time::Duration;
use tokio::io::{AsyncReadExt, AsyncWriteExt};

pub const EPMD_ADDR: &str = "localhost:4369";

#[derive(Clone, Debug)]
pub struct NetCfg {
    pub client: EndCfg,
    pub server: EndCfg,
    pub cap: usize,
}

impl Default for NetCfg {
    fn default() -> Self {
        NetCfg { client: EndCfg::default(), server: EndCfg::default(), cap: 0 }
    }
}

/// Installs an EPMD stub that answers ALIVE2_REQ (creation) and PORT2_REQ
/// (port of `peer_alive`, "not found" otherwise). Conforming; never stalls.
pub fn install_epmd(world: &Arc<World>, creation: u32, peer_alive: &str, peer_port: u16, x_resp: bool) {
    install_epmd_slow(world, creation, peer_alive, peer_port, x_resp, 0)
}

/// `lookup_delay_ms`: how long the daemon takes to answer a port lookup (a loaded or distant EPMD).
pub fn install_epmd_slow(world: &Arc<World>, creation: u32, peer_alive: &str, peer_port: u16, x_resp: bool, lookup_delay_ms: u64) {
    install_epmd_net(world, creation, peer_alive, peer_port, x_resp, lookup_delay_ms, false)
}

/// `choppy`: the daemon's answers reach the client a byte at a time with pauses (a reply is a stream
/// like any other; nothing says it arrives in one piece).
pub fn install_epmd_net(world: &Arc<World>, creation: u32, peer_alive: &str, peer_port: u16, x_resp: bool, lookup_delay_ms: u64, choppy: bool) {
    let peer_alive = peer_alive.to_string();
    let registrations = Arc::new(std::sync::atomic::AtomicU32::new(0));
    world.listen(
        EPMD_ADDR,
        Box::new(move |w: &Arc<World>, _addr: &str| -> ConnectFuture {
            let d = if choppy {
                w.stat("net.epmd_reply_in_pieces");
                duplex(w, 0, &EndCfg { chunking: crate::net::Chunking::Byte, spurious_16: 5, max_delay_ms: 3, ..Default::default() }, &EndCfg { short_writes: true, latency_ms: 2, ..Default::default() })
            } else {
                duplex(w, 0, &EndCfg::default(), &EndCfg::default())
            };
            let Duplex { client_read, client_write, mut server_read, mut server_write, .. } = d;
            let peer_alive = peer_alive.clone();
            let w2 = w.clone();
            let registrations = registrations.clone();
            tokio::spawn(async move {
                let Ok(len) = server_read.read_u16().await else { return };
                let mut body = vec![0u8; usize::from(len)];
                if server_read.read_exact(&mut body).await.is_err() || body.is_empty() {
                    return;
                }
                match body[0] {
                    120 => {
                        w2.stat("epmd.alive2");
                        // like the real daemon, a later registration of the name gets the next creation
                        let creation = creation.wrapping_add(registrations.fetch_add(1, std::sync::atomic::Ordering::SeqCst));
                        let mut resp = Vec::new();
                        if x_resp {
                            resp.push(118);
                            resp.push(0);
                            resp.extend_from_slice(&creation.to_be_bytes());
                        } else {
                            resp.push(121);
                            resp.push(0);
                            resp.extend_from_slice(&(creation as u16).to_be_bytes());
                        }
                        let _ = server_write.write_all(&resp).await;
                        // a real EPMD keeps this socket open for the node's lifetime
                        let mut sink = [0u8; 16];
                        while let Ok(n) = server_read.read(&mut sink).await {
                            if n == 0 {
                                break;
                            }
                        }
                    }
                    122 => {
                        w2.stat("epmd.port2");
                        if lookup_delay_ms > 0 {
                            w2.stat("fault.epmd_slow_lookup");
                            tokio::time::sleep(std::time::Duration::from_millis(lookup_delay_ms)).await;
                        }
                        let name = &body[1..];
                        let mut resp = vec![119u8];
                        // "other" is a second node some runs connect to as well (nodeenv::OTHER_NAME)
                        if name == peer_alive.as_bytes() || (name == b"other" && peer_alive == "peer") {
                            resp.push(0);
                            resp.extend_from_slice(&(if name == peer_alive.as_bytes() { peer_port } else { 5556 }).to_be_bytes());
                            resp.push(77);
                            resp.push(0);
                            resp.extend_from_slice(&6u16.to_be_bytes());
                            resp.extend_from_slice(&5u16.to_be_bytes());
                            resp.extend_from_slice(&(name.len() as u16).to_be_bytes());
                            resp.extend_from_slice(name);
                            resp.extend_from_slice(&0u16.to_be_bytes());
                        } else {
                            resp.push(1);
                        }
                        let _ = server_write.write_all(&resp).await;
                    }
                    _ => {}
                }
            });
            Box::pin(async move { Ok((Box::new(client_read) as BoxRead, Box::new(client_write) as BoxWrite)) })
        }),
    );
}

/// What the peer's end of an accepted connection looks like.
pub struct ServerConn {
    pub read: ReadEnd,
    pub write: WriteEnd,
    /// client -> server
    pub c2s: PipeCtl,
    /// server -> client
    pub s2c: PipeCtl,
    pub conn_index: usize,
}

/// Installs a listener at `addr` that hands each accepted connection to `handler`
/// (which normally spawns a task). `connect_delay_ms`: how long the TCP connect takes
/// (u64::MAX = never completes).
pub fn install_peer<F, D>(world: &Arc<World>, addr: &str, net: NetCfg, connect_delay_ms: D, handler: F)
where
    F: Fn(&Arc<World>, ServerConn) + Send + 'static,
    D: Fn(usize) -> u64 + Send + 'static,
{
    let count = Mutex::new(0usize);
    world.listen(
        addr,
        Box::new(move |w: &Arc<World>, _addr: &str| -> ConnectFuture {
            let idx = {
                let mut c = count.lock().unwrap();
                let i = *c;
                *c += 1;
                i
            };
            let delay = connect_delay_ms(idx);
            if delay == u64::MAX {
                w.stat("fault.connect_never");
                return Box::pin(async {
                    std::future::pending::<()>().await;
                    unreachable!()
                });
            }
            let d = duplex(w, net.cap, &net.client, &net.server);
            let Duplex { client_read, client_write, server_read, server_write, c2s, s2c } = d;
            handler(w, ServerConn { read: server_read, write: server_write, c2s, s2c, conn_index: idx });
            Box::pin(async move {
                if delay > 0 {
                    tokio::time::sleep(Duration::from_millis(delay)).await;
                }
                Ok((Box::new(client_read) as BoxRead, Box::new(client_write) as BoxWrite))
            })
        }),
    );
}

pub async fn read_frame2(r: &mut ReadEnd) -> Result<Vec<u8>, String> {
    let len = r.read_u16().await.map_err(|e| format!("eof/err reading 2-byte length: {}", e))?;
    let mut body = vec![0u8; usize::from(len)];
    r.read_exact(&mut body).await.map_err(|e| format!("eof/err reading {}-byte handshake body: {}", len, e))?;
    Ok(body)
}

pub async fn read_frame4(r: &mut ReadEnd) -> Result<Vec<u8>, String> {
    let len = r.read_u32().await.map_err(|e| format!("eof/err reading 4-byte length: {}", e))?;
    if len > 64 * 1024 * 1024 {
        return Err(format!("frame length {} is implausible", len));
    }
    let mut body = vec![0u8; len as usize];
    r.read_exact(&mut body).await.map_err(|e| format!("eof/err reading {}-byte body: {}", len, e))?;
    Ok(body)
}

#[derive(Clone, Debug)]
pub struct HsParams {
    pub cookie: String,
    pub peer_name: String,
    pub peer_flags: u64,
    pub peer_challenge: u32,
    pub peer_creation: u32,
}

#[derive(Clone, Debug, Default)]
pub struct HsSeen {
    pub name: Option<wire::SentName>,
    pub complement: Option<(u32, u32)>,
    pub reply: Option<(u32, [u8; 16])>,
    pub raw: Vec<Vec<u8>>,
}

/// Conforming acceptor side of the handshake. Returns what the client sent.
pub async fn accept_handshake(conn: &mut ServerConn, p: &HsParams) -> Result<HsSeen, String> {
    let mut seen = HsSeen::default();
    let name = read_frame2(&mut conn.read).await?;
    seen.raw.push(name.clone());
    let sent = wire::parse_send_name(&name)?;
    let new_format = sent.new_format;
    seen.name = Some(sent);
    conn.write.write_all(&wire::frame2(&wire::hs_status("ok"))).await.map_err(|e| e.to_string())?;
    conn.write
        .write_all(&wire::frame2(&wire::hs_challenge(p.peer_flags, p.peer_challenge, p.peer_creation, &p.peer_name)))
        .await
        .map_err(|e| e.to_string())?;
    if !new_format {
        // an initiator that used the old name layout completes it after the challenge
        let comp = read_frame2(&mut conn.read).await?;
        seen.raw.push(comp.clone());
        seen.complement = Some(wire::parse_complement(&comp)?);
    }
    let reply = read_frame2(&mut conn.read).await?;
    seen.raw.push(reply.clone());
    let (their_challenge, digest) = wire::parse_reply(&reply)?;
    seen.reply = Some((their_challenge, digest));
    if digest != wire::digest(&p.cookie, p.peer_challenge) {
        return Err("client's digest does not prove the cookie".into());
    }
    conn.write
        .write_all(&wire::frame2(&wire::hs_ack(&wire::digest(&p.cookie, their_challenge))))
        .await
        .map_err(|e| e.to_string())?;
    Ok(seen)
}

/// Flags an OTP 26+ node offers (without DIST_HDR_ATOM_CACHE / FRAGMENTS).
pub const OTP_FLAGS_BASE: u64 = 0x0000_000d_07df_7fbd & !(0x2000 | 0x0800_0000);
pub const FLAG_DIST_HDR_ATOM_CACHE: u64 = 0x2000;
pub const FLAG_FRAGMENTS: u64 = 0x0800_0000;
