#!/usr/bin/env python3
"""usage: save_seeded.py <name> <property> <mutation dir> <demo file> <crate> <caught_by> <needs...>
Copies patch.diff, the demonstration and the author's README into /verif/seeded/<name>/ with meta.json."""
import sys, os, shutil, json
name, prop, md, demo, crate, caught = sys.argv[1:7]
needs = ' '.join(sys.argv[7:])
d = f'/verif/seeded/{name}'
os.makedirs(d, exist_ok=True)
shutil.copy(f'{md}/patch.diff', f'{d}/patch.diff')
shutil.copy(f'{md}/{demo}', f'{d}/{demo}')
if os.path.exists(f'{md}/README.md'):
    shutil.copy(f'{md}/README.md', f'{d}/author_README.md')
meta = {
  "property": prop,
  "origin": "independent sub-agent given only the property text and a scratch worktree",
  "needs_to_manifest": needs,
  "demonstration": {"file": demo, "how": f"copy to crates/{crate}/tests/ and run `cargo test -p {crate} --test {os.path.splitext(demo)[0]} --offline`: passes at HEAD, fails with patch.diff applied"},
  "confirmed": "tools/confirm_seeded.sh in a scratch worktree: demo exit 0 at HEAD, workspace builds with the patch, demo fails with the patch; the author's README lists the regression run of the existing suite",
  "checked_with": f"tools/try_patch.sh {d}/patch.diff {prop} (git apply in /repo, ./check {prop} quick, git checkout -- .)",
  "caught_by": caught,
}
json.dump(meta, open(f'{d}/meta.json','w'), indent=1)
print('saved', d)
