#!/bin/bash
# usage: confirm_seeded.sh <worktree> <mutation dir> <crate> <demo .rs>
# In the scratch worktree: demo passes at HEAD, fails with the patch; then cleans up.
wt=$1; md=$2; crate=$3; demo=$4
name=$(basename $demo .rs)
cd $wt || exit 3
git checkout -q -- . ; cp $md/$demo crates/$crate/tests/$name.rs
cargo test -p $crate --test $name --offline >/tmp/confirm_head.log 2>&1; rc_head=$?
git apply $md/patch.diff || { echo "patch does not apply"; rm -f crates/$crate/tests/$name.rs; exit 3; }
cargo build --workspace --offline >/tmp/confirm_build.log 2>&1; rc_build=$?
cargo test -p $crate --test $name --offline >/tmp/confirm_mut.log 2>&1; rc_mut=$?
git checkout -q -- . ; rm -f crates/$crate/tests/$name.rs
echo "confirm: demo at HEAD exit $rc_head (want 0); workspace build with patch exit $rc_build (want 0); demo with patch exit $rc_mut (want != 0)"
grep -E "^test result" /tmp/confirm_head.log | head -2; grep -E "^test result|panicked" /tmp/confirm_mut.log | head -3
