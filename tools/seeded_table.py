#!/usr/bin/env python3
"""Prints the markdown table of independent seeded defects from /verif/seeded/*/meta.json."""
import json, glob, os
rows=[]
for m in sorted(glob.glob('/verif/seeded/*/meta.json')):
    d=json.load(open(m)); name=os.path.basename(os.path.dirname(m))
    missed = 'missed' in d['caught_by'].lower() or 'not caught' in d['caught_by'].lower() or 'not visible' in d['caught_by'].lower() or 'first' in d['caught_by'].lower()
    rows.append((name, d['property'], d['needs_to_manifest'], d['caught_by'], missed))
print("| seeded change | needs | result |")
print("|---|---|---|")
for name,prop,needs,caught,missed in rows:
    print(f"| `{name}` | {needs} | {caught} |")
print()
never=[r[0] for r in rows if r[3].startswith('NOT caught')]
first=sum(1 for r in rows if not r[4])
later=sum(1 for r in rows if r[4]) - len(never)
print(f"{len(rows)} seeded changes; {first} caught by the checks as they stood when the change arrived, {later} missed (or mis-reported) at first and caught after the check was strengthened as described, {len(never)} not caught.")
if never:
    print()
    print("Not caught by any check: " + ", ".join(f"`{n}`" for n in never) + " (reason in the table).")
