#!/bin/bash
# usage: tools/seeds.sh <tier> <seed>...   runs every claimed check with each seed; prints failures
cd /verif
tier=$1; shift
for s in "$@"; do
  for p in C04 C05 C06 C07 C09 C14 C16 C17 C18 C19; do
    out=$(VERIF_SEED=$s ./check $p $tier 2>&1); rc=$?
    if [ $rc -ne 0 ]; then echo "seed $s $p exit $rc"; echo "$out" | grep -E "^violation|HARNESS" | cut -c1-300 | head -5; fi
  done
done
echo "seeds done"
