#!/usr/bin/env python3
"""Regenerates /verif/MANIFEST.json from the table below (single source of truth)."""
import json, subprocess

PURE = {
 "C01": "pure function of the input term (encode/decode round trip): no schedule, clock, I/O, fault or interleaving for a simulator to own; deterministic simulation does not apply",
 "C02": "pure function of the input bytes (one decoder call per input; the outcome is process-level but still one call, one input): nothing for a scheduler or fault injector to vary",
 "C03": "pure function of the input bytes (alternative encodings of one value): input-space question, no nondeterminism or fault to simulate",
 "C08": "pure function of the input term (control-message parse/serialise tables): no schedule, time, I/O or multi-party behaviour",
 "C10": "pure function of the input (decode -> clone/convert -> encode of identifiers): no schedule, time, I/O or fault involved",
 "C11": "pure function of pairs/triples of terms (ordering laws): no nondeterminism to control",
 "C12": "pure function of pairs of terms (agreement with Erlang's term order): no nondeterminism to control",
 "C13": "pure function of the input bytes (differential of two decoders): no schedule, time, I/O or fault involved",
 "C15": "pure function of the input value (serde round trip): no schedule, time, I/O or fault involved",
 "C20": "pure function of the input value (wrapper conversions, range arithmetic): no schedule, time, I/O or fault involved",
}

# id -> (technique, level text, level note, design ref)
CLAIMED = {
 "C05": ("deterministic simulation: real framer/deframer over a simulated stream with seeded segmentation, delays, back-pressure, EOF/reset/over-long-length faults, writes refused for want of a stream; exhaustive chunkings of short streams; reference = list of messages written",
         "Seeded search over (message sequence, chunking, delay, fault) runs of the real framing code on a simulated socket and paused clock; each run is checked against the list of messages written and the protocol framing written independently. Sampling, not proof; every chunking of streams up to 14 bytes is enumerated inside runs of kind 'exhaustive'.",
         "Trusted: tokio (paused clock, current-thread scheduler), the simulator's pipe model of TCP (ordered, unmodified bytes until close/reset), the counting allocator for the allocation bound.",
         "DESIGN.md section 3, C05"),
}

CLAIMED.update({
 "C04": ("deterministic simulation: real Connection::connect against a scripted handshake peer on a simulated socket and paused clock (peer deviations, silence, delays around the timeout, truncation, reset as faults) + seeded API-step histories of HandshakeStateMachine against a reference model",
         "Seeded search over (cookie, names, flags, timeout, network behaviour, 1..3 attempts with at most one peer deviation each) on the real connect path, and over 3..12-step API histories checked step by step against a reference model that remembers the challenge issued since the last disconnect. Oracle: connected only with proof; flags are the intersection; emitted handshake bytes parse with an independent reader; non-conforming peers end in an error within the timeout of the deviation. Sampling, not proof.",
         "Trusted: tokio paused clock and scheduler, md-5 primitive, the simulator's peer model and handshake layouts (written from the protocol documents), EPMD stub conforms.",
         "DESIGN.md section 3, C04"),
 "C17": ("deterministic simulation: concurrent rpc_call* on a real Node against a simulated rex that delays, reorders, duplicates, drops and misaddresses replies; connection faults (peer close/reset, write error); the listed connection closed by the application itself; calls to a second, fault-free node interleaved; calls given up by their callers; crowds of 100..300 outstanding calls; seeded yield points around the outstanding-call table; history oracle + table inspected at quiescence",
         "Seeded search over (1..8 callers x 1..4 calls - at times one caller x 70..140 or 100..300 callers x 1 -, per-call reply behaviour and delay relative to the caller's timeout, timeouts from 0 ms to Duration::MAX, calls dropped by their callers once the peer holds the request, another user of the connection holding its mutex until just before a queued call's timeout, network behaviour, yield-point subset, optional connection fault). Oracle over the recorded history: every Ok is a reply the peer addressed to that call's own reply pid, no reply is returned twice, error kinds are admissible for what was injected, the outstanding-call table holds nothing at quiescence for any call that returned (entries of calls their callers dropped and the peer never answered are counted, not judged), a fresh call succeeds once faults stopped. Sampling, not proof.",
         "Trusted: tokio (paused clock, oneshot, Mutex), dashmap, the rex/peer model and its independent frame reader; single runtime thread per run (interleavings only at await/yield points).",
         "DESIGN.md section 3, C17"),
 "C19": ("deterministic simulation: scripted peer sends inbound frame sequences (routable, unroutable, undecodable, ticks, quiet gaps up to 10 simulated minutes, over-long length, premature close, reset) to a real Node with recorder processes under simulated time, in a third of the runs with a second, well-behaved node connected to the same Node at the same time; routing history and connections() membership over time are checked",
         "Seeded search over inbound frame scripts x recipients (live, dead, never existing, registered/unregistered names, outstanding rpc) x tick period x network behaviour x fatal event x reconnect. Oracle: per-recipient delivered sequence equals the script's expectation exactly (fields intact, order, exactly once); at every checkpoint before a fatal event the connection is registered and a probe rpc gets through; after a fatal event it is deregistered within a bound; reconnect works; the second node's messages, outstanding call and connection are untouched by whatever the first peer does. Sampling, not proof.",
         "Trusted: tokio paused clock/scheduler, the peer script and its independent encoder; mid-frame delays are kept below the read timeout.",
         "DESIGN.md section 3, C19"),
 "C07": ("deterministic simulation: 1..6 tasks send through one real Node/Connection over a simulated socket whose writes are short and stall between the partial writes of a frame; an independent protocol reader on the peer end parses the byte stream; write-error and peer-close faults, the peer going away and the application connecting again; in a third of the node-level runs a second, well-behaved node with a reader of its own",
         "Seeded search over (operation sequences with seeded arguments, both framing modes, task count, write perturbation, optional fault). Oracle from the peer's independent reader: the stream is a sequence of whole frames in the negotiated mode; frames and operations that returned Ok are in bijection; each frame carries the protocol's control tuple for the operation and exactly the given payload; per task, frames appear in issue order; operations before the handshake write nothing; with two nodes connected each reads exactly the frames of the operations that name its processes. Sampling, not proof.",
         "Trusted: tokio, the simulator's independent frame/header/term reader (written from the protocol documents), payload sub-space of DESIGN 2.4.",
         "DESIGN.md section 3, C07"),
 "C18": ("deterministic simulation: seeded histories of send/send_to_name/register/unregister/whereis/link/unlink/monitor/demonitor/process failure from several tasks on a real Node with instrumented process handlers, yield points at registry and exit-propagation steps; history oracles + linearizability check of the name table against a sequential map; GenServer/GenEvent call/cast/notify dispatch; crowds of 17..150 watchers around one failing process",
         "Seeded search over operation histories x task interleavings (await points, handler stalls, yield points in the mailbox loop, exit propagation and registry removal). Oracles over the recorded history stamped with one global sequence: exactly-once in-order delivery per (sender, process) with the prefix rule for failed targets; exactly one exit / monitor notice per link / monitor in force at the failure, none after a completed unlink / demonitor, none spurious; terminated identifiers do not resolve; per-name register/unregister/whereis history (with the death of the owner as one removal inside the death interval) is linearizable against a map; behaviours answer each call once to its caller. Sampling, not proof.",
         "Trusted: tokio (mpsc, RwLock, paused clock); link/unlink on a pair and monitor/demonitor on a (watcher,target) pair are issued by one task so their order is known; single runtime thread per run.",
         "DESIGN.md section 3, C18"),
 "C09": ("deterministic simulation: real FragmentAssembler fed by a simulated unordered, duplicating, dropping channel carrying 1..4 interleaved sequences under the simulated clock (expiry); all N! arrival orders for N<=5; reference = set-of-ids model",
         "Seeded search over (sequences, cut positions, delivery permutation, duplicates, drops, out-of-range ids, time between deliveries, cleanup calls) plus exhaustive arrival orders of single sequences. Oracle: Some(result) exactly at the delivery that completes the model's record, None elsewhere; result classified as original / ascending-id concatenation (known finding) / other; pending_count and cleanup_expired agree with the model. Sampling plus small exhaustive enumerations, not proof.",
         "Trusted: tokio paused clock; the simulator's fragmenter (numbers fragments N..1 in stream order as the protocol document prescribes).",
         "DESIGN.md section 3, C09"),
 "C16": ("deterministic simulation of thread schedules: real PidAllocator::allocate and Node::make_reference on shuttle threads (std Mutex/atomics switched to shuttle's under a cfg): DFS over every schedule for 2-thread configurations, seeded random and PCT schedules for up to 4 threads x 3 calls, counters started at 1 / around the 2^20 wrap / before the serial's 32-bit wrap; single-thread multi-wrap history and long reference history; plus node-level histories on the simulated network (identifiers from spawn, reply identifiers of remote calls as the peer sees them, references from monitor; calls before start, EPMD handing out the creation already in force, failed and timed-out calls, a call that fails after a whole lap of the number space went by while it waited)",
         "Every explored schedule ends with the oracle: all returned (number, serial) pairs pairwise distinct, every identifier carries the creation set before the threads started, all reference word-vectors and words pairwise distinct. The 2x1 configurations are enumerated exhaustively by shuttle's DFS scheduler (reported per configuration with exhausted=true/false); larger ones are sampled by seeded random and PCT schedulers; failing schedules are persisted and replayed with shuttle::replay_from_file. Sampling plus small exhaustive enumerations, not proof.",
         "Trusted: shuttle (treats all atomic orderings as SeqCst: weak-memory effects are not explored), the shadow manifests build the same sources as /repo.",
         "DESIGN.md section 3, C16"),
 "C06": ("deterministic simulation: a connected real Connection receives from a conforming sender model that emits every control kind in every wire form (pass-through, distribution header with an OTP-style atom cache, fragmented), ticks and junk frames over a segmented, delayed simulated stream; reference = the sender's log",
         "Seeded search over (item sequences: control kinds x payloads x wire forms, ticks, twelve kinds of junk frame, three receive APIs, idle gaps and abandoned idle calls, network behaviour). Oracle: the results of successive receive_message calls equal the sender's expectation list call by call: one Ok with equal control and payload per complete valid message, one Err per junk frame, nothing for ticks and non-final fragments; no panic. Fragmented messages are sent as the protocol prescribes and their non-delivery is the recorded known finding; any other discrepancy fails. Sampling, not proof.",
         "Trusted: the sender model and independent encoder (written from the protocol documents); junk frames avoid the cache slots and sequence ids the model uses.",
         "DESIGN.md section 3, C06"),
 "C14": ("deterministic simulation of connection histories: a sender model with an Erlang-conformant atom cache (8 segments x 256 slots, header position independent of slot, create / re-use / overwrite across 1..30, 300..600 and (rarely) 52..60 heavy messages carrying more than 64 MiB of atom text, long atoms also as node and module names, both parities) drives a real connected Connection; the library's own header-mode frames are read by an independent header reader and echoed back",
         "History half of C14 (the single-message half is a pure function and is exercised only as a by-product). Oracle: every message of the history is returned with control and payload equal to what the sender meant; every frame the library emits in header mode is read by the independent reader as the same terms, messages with more than 255 distinct atoms are refused, and the same Connection decodes its own echoed encoding identically. Sampling, not proof.",
         "Trusted: the simulator's header writer/reader (written from the protocol documents); any slot assignment by the sender conforms.",
         "DESIGN.md section 3, C14"),
})

PENDING = {k: 'check under construction in this session (simulation applies; see DESIGN.md); not claimed yet' for k in []}

def main():
    hooks = subprocess.run(["git","-C","/repo","log","--format=%H %s","--grep=^verif hook"],capture_output=True,text=True).stdout.strip().splitlines()
    checks = []
    for pid,(tech,text,note,ref) in sorted(CLAIMED.items()):
        checks.append({
            "property_id": pid,
            "quick_cmd": f"./check {pid} quick",
            "thorough_cmd": f"./check {pid} thorough",
            "evidence_file": f"/verif/evidence/{pid}.json",
            "replay_cmd_template": "./check --replay {path}",
            "engine": "c16_shuttle" if pid == "C16" else "edp_sim",
            "level_claimed": {"category": "exploration", "text": text, "design_ref": ref},
            "level_note": note,
            "technique": tech,
        })
    na = [{"property_id": k, "reason": v} for k,v in sorted({**PURE, **PENDING}.items())]
    m = {
        "version": 1,
        "setup_cmd": "cd /verif/sim && CARGO_NET_OFFLINE=true RUSTFLAGS='--cfg edp_verif --cfg tokio_unstable' cargo build --profile sim --offline && cd /verif/c16_shuttle && CARGO_NET_OFFLINE=true RUSTFLAGS='--cfg edp_verif_shuttle' cargo build --profile sim --offline",
        "hooks": {
            "guard": "edp_verif",
            "enable": "RUSTFLAGS='--cfg edp_verif --cfg tokio_unstable' (the second flag only opens tokio's runtime seed API for the simulator; set by /verif/check and /verif/sim/.cargo/config.toml); C16 additionally builds shadow manifests with --cfg edp_verif_shuttle",
            "baseline_off_cmd": "cd /repo && cargo nextest run --workspace --no-fail-fast --tool-config-file pb:/w/lib/nextest.toml --profile pb --test-threads 8 --offline",
            "source_commits": [h.split()[0] for h in hooks],
            "add_only": True,
        },
        "engines": [
            {"name": "edp_sim", "path": "/verif/sim", "serves_properties": sorted(CLAIMED),
             "kind_free_text": "deterministic simulator: seeded plans + schedule tape, simulated stream transport and paused clock, scripted peer with an independent codec, minimiser and replay"},
            {"name": "c16_shuttle", "path": "/verif/c16_shuttle", "serves_properties": ["C16"],
             "kind_free_text": "shuttle-scheduled threads over the real allocator code (shadow manifests add the shuttle dependency; DFS / seeded random / PCT schedulers; persisted schedules replay)"},
        ],
        "checks": checks,
        "not_applicable": na,
        "notes": "See DESIGN.md (section 9 is the as-built account; 9.8 lists what each check varies). /verif/known_findings.json holds the open and fixed findings, /verif/seeded/ 245 independently authored seeded defects with their demonstrations (tools/seeded_all.sh re-applies each to /repo and runs the deciding check). Exit codes: 0 held, 1 violation (VIOLATION line with replay file), 2 harness error (build failure, nondeterminism, unreproducible replay).",
    }
    json.dump(m, open("/verif/MANIFEST.json","w"), indent=1)
    print("claimed", sorted(CLAIMED), "n/a", len(na))

if __name__ == "__main__":
    main()
