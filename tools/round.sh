#!/bin/bash
# usage: tools/round.sh <ID> <crate> [demo file]   confirm + try each /tmp/mut/<ID>/mutationN against ./check <ID> quick
id=$1; crate=$2
for md in ${MUTROOT:-/tmp/mut}/$id/mutation*/; do
  md=${md%/}; m=$(basename $md)
  demo=${3:-$(cd $md && ls *.rs | head -1)}
  echo "== $id $m ($demo)"
  /verif/tools/confirm_seeded.sh ${MUTROOT:-/tmp/mut}/$id $md $crate $demo 2>&1 | head -1
  /verif/tools/try_patch.sh $md/patch.diff $id 2>&1 | grep -E "^violation|try_patch|HARNESS|does not apply|dirty" | cut -c1-260
done
