#!/bin/bash
# usage: tools/try_patch.sh <patch.diff> <ID> [tier]   applies to /repo, runs the check, always reverts
patch=$1; id=$2; tier=${3:-quick}
cd /repo || exit 3
if [ -n "$(git status --porcelain --untracked-files=no)" ]; then echo "/repo dirty"; exit 3; fi
git apply "$patch" || { echo "patch does not apply"; exit 3; }
cd /verif && ./check $id $tier 2>&1 | grep -E "^violation|^VIOLATION|HARNESS|KNOWN|$id $tier" | cut -c1-330 | head -8
rc=${PIPESTATUS[0]}
git -C /repo checkout -- . ; git -C /repo status --porcelain --untracked-files=no | head -3
echo "try_patch: check exit $rc"
