#!/bin/bash
# usage: tools/seeded_some.sh <name prefix, e.g. C19-r9>   like seeded_all.sh for the matching ones
# Applies every seeded defect under /verif/seeded to /repo in turn, runs the quick check of its
# property, reverts. Every line must say "caught".
cd /verif
for d in seeded/${1:-}*/; do
  n=$(basename $d); prop=$(python3 -c "import json;m=json.load(open('$d/meta.json'));print(m.get('check_with',m['property']))")
  out=$(./tools/try_patch.sh /verif/$d/patch.diff $prop 2>&1)
  exp=$(python3 -c "import json;print(json.load(open('$d/meta.json')).get('expected','caught'))")
  if [ "$exp" = "missed" ]; then
    if echo "$out" | grep -q "try_patch: check exit 0"; then echo "missed-as-recorded $n ($prop): see meta.json"; else echo "CHANGED  $n ($prop): recorded as not catchable, but: $(echo "$out" | tail -2 | tr '\n' ' ' | cut -c1-160)"; fi
    continue
  fi
  if echo "$out" | grep -q "try_patch: check exit 1"; then echo "caught   $n ($prop): $(echo "$out" | grep -m1 '^violation' | cut -c1-110)"; else echo "MISSED   $n ($prop): $(echo "$out" | tail -2 | tr '\n' ' ' | cut -c1-160)"; fi
done
