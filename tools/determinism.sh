#!/bin/bash
# Cross-process determinism check: the same seeds executed in two fresh processes with different
# worker counts must give identical event-log digests. usage: tools/determinism.sh [n] [ids...]
cd /verif/sim || exit 2
n=${1:-4000}; shift
ids=${@:-C04 C05 C06 C07 C09 C14 C17 C18 C19}
rc=0
for p in $ids; do
  a=$(VERIF_THREADS=16 ./target/sim/edp_sim digests $p $n | md5sum)
  b=$(VERIF_THREADS=3 ./target/sim/edp_sim digests $p $n | md5sum)
  c=$(VERIF_THREADS=7 ./target/sim/edp_sim digests $p $n thorough | md5sum)
  d=$(VERIF_THREADS=1 ./target/sim/edp_sim digests $p $((n/8)) thorough | md5sum)
  e=$(VERIF_THREADS=5 ./target/sim/edp_sim digests $p $((n/8)) thorough | md5sum)
  if [ "$a" = "$b" ] && [ "$d" = "$e" ]; then echo "$p deterministic over $n runs (16 vs 3 workers; thorough 1 vs 5 workers)"; else echo "$p NONDETERMINISTIC"; rc=2; fi
done
exit $rc
