#!/usr/bin/env python3
"""Apply an in-place textual mutation to /repo, run a command, then restore (git checkout).
usage: mut.py <relative file> <old> <new> -- <command...>
For sensitivity experiments only; never leaves /repo modified."""
import subprocess, sys
args = sys.argv[1:]
i = args.index('--')
f, old, new = args[0], args[1], args[2]
cmd = args[i+1:]
path = '/repo/' + f
s = open(path).read()
if s.count(old) != 1:
    print('mut.py: pattern occurs', s.count(old), 'times', file=sys.stderr); sys.exit(3)
dirty = subprocess.run(['git','-C','/repo','status','--porcelain','--untracked-files=no'],capture_output=True,text=True).stdout.strip()
if dirty:
    print('mut.py: /repo is dirty, refusing', file=sys.stderr); sys.exit(3)
open(path,'w').write(s.replace(old,new))
try:
    r = subprocess.run(cmd)
    print('mut.py: exit', r.returncode)
finally:
    subprocess.run(['git','-C','/repo','checkout','--',f])
